#!/bin/bash
# tools/runall.sh [quick|thorough] [seed]   run every registered check, summarise
cd "$(dirname "$0")/.."
TIER=${1:-quick}; SEED=${2:-1}
for id in $(python3 -c "import json; print(' '.join(c['property_id'] for c in json.load(open('MANIFEST.json'))['checks']))"); do
  t0=$(date +%s.%N)
  out=$(VERIF_SEED=$SEED ./check $id $TIER 2>&1); rc=$?
  t1=$(date +%s.%N)
  printf "%s rc=%d %.1fs %s\n" $id $rc $(echo "$t1 - $t0" | bc) "$(echo "$out" | grep -E 'VIOLATION|INCONCLUSIVE|KNOWN-FINDING|signature' | head -3 | tr '\n' ' ')"
done
