#!/bin/bash
# tools/run_seeded.sh   run every seeded change under /verif/seeded against the check of its property (quick tier)
cd "$(dirname "$0")/.."
OUT=seeded/RESULTS.md
echo "# Seeded changes vs. checks (quick tier, $(git rev-parse --short HEAD))" > $OUT
echo "" >> $OUT
echo "| seeded change | property | result | signature |" >> $OUT
echo "|---|---|---|---|" >> $OUT
for d in seeded/*/; do
  n=$(basename $d)
  [ -f $d/patch.diff ] || continue
  p=$(python3 -c "import json; print(json.load(open('$d/meta.json'))['property'])")
  line=$(tools/runmutant.sh $d/patch.diff $p 2>&1 | tail -1)
  res=$(echo "$line" | awk '{print $3}')
  sig=$(echo "$line" | cut -d' ' -f5-)
  echo "| $n | $p | $res | $sig |" >> $OUT
  echo "$n $p $res $sig"
done
