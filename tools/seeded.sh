#!/bin/bash
# tools/seeded.sh <Cxx> <k> [extra check ids...]
# Take a sub-agent's deliverables from /tmp/wt/<Cxx>/out/{patchK.diff,demoK.rs,metaK.json}, confirm them in the
# scratch worktree (applies, compiles, suite passes, demo fails with / passes without), store them as
# /verif/seeded/<Cxx>-<k>/, then run my checks against the change applied to /repo (reverted right after).
set -u
ID=$1; K=$2; shift 2; EXTRA="$*"
WT=${WT:-/tmp/wt/$ID}
OUT=$WT/out
DST=/verif/seeded/${DSTNAME:-$ID-$K}
mkdir -p $DST
cp $OUT/patch$K.diff $DST/patch.diff
cp $OUT/demo$K.rs $DST/demo.rs
cp $OUT/meta$K.json $DST/agent_meta.json
LOG=$DST/confirm.log
: > $LOG
cd $WT
git checkout -q -- . ; rm -f tests/demo_seed.rs
# 1. patch applies, suite passes, demo fails
if ! git apply $DST/patch.diff 2>>$LOG; then echo "$ID-$K: patch does not apply" | tee -a $LOG; exit 1; fi
SUITE=$(cargo test --workspace --no-fail-fast --offline 2>&1 | grep -E "^test result" | tr '\n' ' ')
cp $DST/demo.rs tests/demo_seed.rs
DEMO_WITH=$(cargo test --offline --test demo_seed 2>&1 | grep -E "^test result|error(\[E[0-9]+\])?:|could not compile" | head -3 | tr '\n' ' ')
rm -f tests/demo_seed.rs; git checkout -q -- .
# 2. demo passes without
cp $DST/demo.rs tests/demo_seed.rs
DEMO_WITHOUT=$(cargo test --offline --test demo_seed 2>&1 | grep -E "^test result|error(\[E[0-9]+\])?:|could not compile" | head -3 | tr '\n' ' ')
rm -f tests/demo_seed.rs; git checkout -q -- .
echo "suite with patch: $SUITE" >> $LOG
echo "demo with patch: $DEMO_WITH" >> $LOG
echo "demo without patch: $DEMO_WITHOUT" >> $LOG
cat $LOG
# 3. my checks
cd /verif
RES=""
for id in $ID $EXTRA; do
  line=$(tools/runmutant.sh $DST/patch.diff $id 2>&1 | tail -1)
  echo "$line" | tee -a $LOG
  RES="$RES$line; "
done
DSTDIR=$DST python3 - "$ID" "$K" "$SUITE" "$DEMO_WITH" "$DEMO_WITHOUT" "$RES" <<'PY'
import json, sys, os
ID,K,suite,dw,dwo,res = sys.argv[1:7]
d=os.environ.get('DSTDIR') or '/verif/seeded/%s-%s' % (ID,K)
try: am=json.load(open(d+'/agent_meta.json'))
except Exception as e: am={"error": str(e)}
meta={
 "property": ID,
 "source": os.environ.get("SEED_SOURCE", "independent sub-agent given only the property text and a scratch worktree of /repo"),
 "summary": am.get("summary"),
 "needs_to_manifest": am.get("needs_to_manifest"),
 "agent_verified": am.get("verified"),
 "confirmed_by_me": {
   "existing suite with the patch (cargo test --workspace --no-fail-fast --offline)": suite,
   "demo with the patch": dw,
   "demo without the patch": dwo,
 },
 "my_checks_quick_tier": res,
}
json.dump(meta, open(d+'/meta.json','w'), indent=1)
PY
