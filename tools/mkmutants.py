#!/usr/bin/env python3
"""Hand-made mutants (DESIGN.md section 8). Generates /verif/mutants/<name>.diff from
(old,new) replacements against /repo's HEAD, without leaving /repo modified."""
import subprocess, os, sys, json

M = []
def m(name, props, file, old, new, count=1, note=""):
    M.append(dict(name=name, props=props, file=file, old=old, new=new, count=count, note=note))

L = "src/lib.rs"
# C01
m("c01_sse42_loop_guard", ["C01","C12"], "src/simd/sse42.rs", "while bytes.as_ref().len() >= 16 {\n        let advance = match_url_char_16_sse", "while bytes.as_ref().len() >= 9 {\n        let advance = match_url_char_16_sse")
m("c01_avx2_value_loop_guard", ["C01","C12"], "src/simd/avx2.rs", "while bytes.as_ref().len() >= 32 {\n        let advance = match_header_value_char_32_avx", "while bytes.as_ref().len() >= 20 {\n        let advance = match_header_value_char_32_avx")
m("c01_shrink_count_plus1", ["C01","C17"], L, "let headers = unsafe { headers.get_unchecked_mut(..self.num_headers) };", "let headers = unsafe { headers.get_unchecked_mut(..self.num_headers + 1) };")
m("c01_chunk_digit_limit", ["C09","C01"], L, "b'0' ..= b'9' if in_chunk_size => {\n                if count > 15 {", "b'0' ..= b'9' if in_chunk_size => {\n                if count > 16 {")
m("c01_infinite_loop_formfeed", ["C01"], L, "            Some(b'\\n') => {\n                // SAFETY: peeked and found `\\n`, so it's safe to bump 1 pos\n                unsafe {\n                    bytes.bump();\n                }\n            }", "            Some(b'\\n') => {\n                // SAFETY: peeked and found `\\n`, so it's safe to bump 1 pos\n                unsafe {\n                    bytes.bump();\n                }\n            }\n            Some(0x0c) => {}")
# C02
m("c02_avx2_value_accepts_del", ["C02","C12","C13","C05","C08"], "src/simd/avx2.rs", "let bit = _mm256_andnot_si256(del, _mm256_or_si256(low, tab));", "let bit = _mm256_or_si256(low, tab); let _ = del;")
m("c02_version_partial_guess", ["C02","C11","C06"], L, "    expect!(bytes.next() == b'.' => Err(Error::Version));\n    Ok(Status::Partial)", "    expect!(bytes.next() == b'.' => Err(Error::Version));\n    if bytes.peek().is_none() { return Ok(Status::Complete(1)); }\n    Ok(Status::Partial)")
# C03
m("c03_lf_offset_plus1", ["C03","C08","C02"], L, "        if b == b'\\n' {\n            let end = bytes.as_ref().as_ptr() as usize;\n            result = Ok(Status::Complete(end - start));", "        if b == b'\\n' {\n            let end = bytes.as_ref().as_ptr() as usize;\n            result = Ok(Status::Complete(end - start + 1));")
# C04
m("c04_name_includes_colon", ["C04","C08","C05"], L, "            // SAFETY: previously bumped by 1 with next! -> always safe.\n            let bslice = unsafe { bytes.slice_skip(1) };", "            // SAFETY: previously bumped by 1 with next! -> always safe.\n            let bslice = if b == b':' && bytes.pos() > 40 { bytes.slice() } else { unsafe { bytes.slice_skip(1) } };")
m("c04_empty_value_static", ["C04"], L, "                break 'value &whitespace_slice[0..0];", "                let _ = whitespace_slice; break 'value &b\"x\"[..];", note="non-empty static value for empty header values")
# C05
m("c05_reason_obs_text_off_by_one", ["C05","C07"], L, "        } else if b >= 0x80 {\n            seen_obs_text = true;", "        } else if b > 0x80 {\n            seen_obs_text = true;")
m("c05_value_map_del", ["C05","C08","C12","C02"], L, "static HEADER_VALUE_MAP: [bool; 256] = byte_map!(\n    b'\\t' | b' '..=0x7e | 0x80..=0xFF\n);", "static HEADER_VALUE_MAP: [bool; 256] = byte_map!(\n    b'\\t' | b' '..=0x7f | 0x80..=0xFF\n);")
m("c05_skipper_no_nul", ["C05","C14","C10"], L, "                    if b == b'\\0' {\n                        return Err(Error::$err);\n                    }", "")
# C06
m("c06_method_at_sign", ["C06","C05"], L, "        b'A'..=b'Z' => true,\n        _ => TOKEN_MAP[b as usize],", "        b'@'..=b'Z' => true,\n        _ => TOKEN_MAP[b as usize],")
m("c06_version_12", ["C06","C07","C05"], L, "            H11 => Ok(Status::Complete(1)),\n            _ => Err(Error::Version),", "            H11 => Ok(Status::Complete(1)),\n            x if x == u64::from_ne_bytes(*b\"HTTP/1.2\") => Ok(Status::Complete(2)),\n            _ => Err(Error::Version),")
m("c06_skip_spaces_tab", ["C06","C07"], L, "            Some(b' ') => {\n                // SAFETY: peeked and found ` `, so it's safe to bump 1 pos\n                unsafe { bytes.bump() };\n            }\n            Some(..) => {\n                bytes.slice();\n                return Ok(Status::Complete(()));\n            }\n            None => return Ok(Status::Partial),\n        }\n    }\n}\n\n/// A parsed Response.", "            Some(b' ') | Some(b'\\t') => {\n                // SAFETY: peeked and found ` `, so it's safe to bump 1 pos\n                unsafe { bytes.bump() };\n            }\n            Some(..) => {\n                bytes.slice();\n                return Ok(Status::Complete(()));\n            }\n            None => return Ok(Status::Partial),\n        }\n    }\n}\n\n/// A parsed Response.")
# C07
m("c07_tab_after_code", ["C07","C10"], L, "        match next!(bytes) {\n            b' ' => {\n                if config.allow_multiple_spaces_in_response_status_delimiters {", "        match next!(bytes) {\n            b' ' | b'\\t' => {\n                if config.allow_multiple_spaces_in_response_status_delimiters {")
m("c07_two_digit_code", ["C07","C05"], L, "    let ones = expect!(bytes.next() == b'0'..=b'9' => Err(Error::Status));", "    let ones = match bytes.peek() { Some(b' ') => b'0', _ => expect!(bytes.next() == b'0'..=b'9' => Err(Error::Status)) };")
# C08
m("c08_trim_ignores_tab", ["C08","C05","C14"], L, ".rposition(|b| *b != b' ' && *b != b'\\t' && *b != b'\\r' && *b != b'\\n')", ".rposition(|b| *b != b' ' && *b != b'\\r' && *b != b'\\n')")
m("c08_one_leading_space", ["C08","C05"], L, "                if b == b' ' || b == b'\\t' {\n                    bytes.slice();\n                    continue 'whitespace_after_colon;\n                }", "                if (b == b' ' || b == b'\\t') && bytes.pos() <= 1 {\n                    bytes.slice();\n                    continue 'whitespace_after_colon;\n                }")
# C09
m("c09_ws_no_phase_end", ["C09"], L, "            b'\\t' | b' ' if in_chunk_size => {\n                if count == 0 {\n                    return Err(InvalidChunkSize);\n                }\n                in_chunk_size = false\n            }", "            b'\\t' | b' ' if in_chunk_size => {\n                if count == 0 {\n                    return Err(InvalidChunkSize);\n                }\n            }")
# C10
m("c10_swap_kind", ["C10"], L, "                if b == b'\\r' {\n                    expect!(bytes.next() == b'\\n' => Err(Error::HeaderValue));\n                } else if b != b'\\n' {", "                if b == b'\\r' {\n                    expect!(bytes.next() == b'\\n' => Err(Error::HeaderName));\n                } else if b != b'\\n' {")
m("c10_slot_before_value", ["C10","C17","C02"], L, "        let mut b;\n\n        #[allow(clippy::never_loop)]\n        let value_slice = 'value: loop {", "        let mut b;\n        if iter.len() == 0 { break 'headers; }\n\n        #[allow(clippy::never_loop)]\n        let value_slice = 'value: loop {")
# C11
m("c11_drop_expect_version", ["C11","C06","C02"], L, "    expect!(bytes.next() == b'T' => Err(Error::Version));\n    expect!(bytes.next() == b'P' => Err(Error::Version));", "    let _ = next!(bytes);\n    expect!(bytes.next() == b'P' => Err(Error::Version));")
m("c11_code_deferred", ["C11","C07","C02"], L, "    let hundreds = expect!(bytes.next() == b'0'..=b'9' => Err(Error::Status));\n    let tens = expect!(bytes.next() == b'0'..=b'9' => Err(Error::Status));", "    let hundreds = next!(bytes);\n    let tens = next!(bytes);\n    let _ = bytes.peek();\n    if !hundreds.is_ascii_digit() || !tens.is_ascii_digit() { if bytes.peek().is_none() { return Ok(Status::Partial); } return Err(Error::Status); }")
# C12
m("c12_avx2_uri_low", ["C12","C13","C06","C02"], "src/simd/avx2.rs", "let LOW: __m256i = _mm256_set1_epi8(0x21);", "let LOW: __m256i = _mm256_set1_epi8(0x20);")
m("c12_swar_m128", ["C12"], "src/simd/swar.rs", "    let xor_del = x ^ DEL;\n    let eq_del = xor_del.wrapping_sub(ONE) & !xor_del; // == DEL\n\n    offsetnz((lt | eq_del) & M128)\n}\n\n// A byte-wise range-check on an entire word/block,\n// ensuring all bytes in the word satisfy `32", "    let xor_del = x ^ DEL;\n    let eq_del = xor_del.wrapping_sub(ONE) & !xor_del; // == DEL\n\n    offsetnz((lt | (eq_del & !(x << 8))) & M128)\n}\n\n// A byte-wise range-check on an entire word/block,\n// ensuring all bytes in the word satisfy `32", note="DEL missed when the previous byte has its high bit set")
m("c12_neon_value_tab", ["C12"], "src/simd/neon.rs", "    let tab = vceqq_u8(input, vdupq_n_u8(0x09));", "    let tab = vceqq_u8(input, vdupq_n_u8(0x0b));")
# C13
m("c13_sse42_arm_swapped", ["C13","C12"], "src/simd/runtime.rs", "            SSE42 => sse42::match_header_value_vectored(bytes),", "            SSE42 => super::swar::match_uri_vectored(bytes),", note="SSE4.2 runtime arm uses the URI class for values (SP/HTAB stop the vector scan but the caller re-checks: harmless?)")
m("c13_cfg_lattice_hole", ["C13"], "src/simd/mod.rs", "#[cfg(all(\n    httparse_simd,\n    httparse_simd_target_feature_sse42,\n    not(httparse_simd_target_feature_avx2),\n    any(\n        target_arch = \"x86\",\n        target_arch = \"x86_64\",\n    ),\n))]\npub use self::sse42_compile_time::*;", "#[cfg(all(\n    httparse_simd,\n    httparse_simd_target_feature_sse42,\n    not(httparse_simd_target_feature_avx2),\n    feature = \"std\",\n    target_arch = \"x86_64\",\n    not(debug_assertions),\n))]\npub use self::sse42_compile_time::*;")
# C14
m("c14_fold_tab_not_ws", ["C14","C10"], L, "                    Some(b' ') | Some(b'\\t') => {\n                        // The space will be consumed next iteration.", "                    Some(b' ') => {\n                        // The space will be consumed next iteration.")
m("c14_ignore_lone_cr", ["C14","C05"], L, "                    if b == b'\\r' {\n                        expect!(bytes.next() == b'\\n' => Err(Error::$err));\n                        break;\n                    }", "                    if b == b'\\r' {\n                        if bytes.peek() == Some(b'\\n') { bytes.next(); break; }\n                    }")
# C15
m("c15_ignore_drops_empty_values", ["C15","C14"], L, "                let whitespace_slice = bytes.slice();\n", "                let whitespace_slice = bytes.slice();\n                if config.ignore_invalid_headers { continue 'headers; }\n")
m("c15_request_reads_response_fold", ["C15","C14"], L, "                allow_obsolete_multiline_headers: false,\n                allow_space_before_first_header_name: config.allow_space_before_first_header_name,\n                ignore_invalid_headers: config.ignore_invalid_headers_in_requests", "                allow_obsolete_multiline_headers: config.allow_obsolete_multiline_headers_in_responses,\n                allow_space_before_first_header_name: config.allow_space_before_first_header_name,\n                ignore_invalid_headers: config.ignore_invalid_headers_in_requests")
# C16
m("c16_uninit_ignores_config", ["C16"], L, "        request.parse_with_config_and_uninit_headers(buf, self, headers)", "        request.parse_with_config_and_uninit_headers(buf, &Default::default(), headers)")
m("c16_parse_headers_lenient", ["C16","C08"], L, "    let pos = complete!(parse_headers_iter(&mut dst, &mut iter, &HeaderParserConfig::default()));", "    let pos = complete!(parse_headers_iter(&mut dst, &mut iter, &HeaderParserConfig { allow_spaces_after_header_name: true, ..HeaderParserConfig::default() }));")
# C17
m("c17_no_restore_on_err", ["C17","C18"], L, "                other => {\n                    // put the original headers back\n                    self.headers = &mut *(headers as *mut [Header<'_>]);\n                    other\n                },\n            }\n        }\n    }\n\n    /// Try to parse a buffer of bytes into the Request.", "                Ok(Status::Partial) => {\n                    // put the original headers back\n                    self.headers = &mut *(headers as *mut [Header<'_>]);\n                    Ok(Status::Partial)\n                },\n                other => other,\n            }\n        }\n    }\n\n    /// Try to parse a buffer of bytes into the Request.")
# C18
m("c18_stale_reason", ["C18"], L, "            b'\\n' => {\n                bytes.slice();\n                self.reason = Some(\"\");\n            }", "            b'\\n' => {\n                bytes.slice();\n                if self.reason.is_none() { self.reason = Some(\"\"); }\n            }")
# C19
m("c19_alloc_in_utf8_error", ["C19"], L, "            Err(_) => Err(Error::Token),\n        }\n    } else {\n        Err(Error::Token)", "            Err(e) => { #[cfg(feature = \"std\")] { let s = std::format!(\"{}\", e); if s.len() == 0 { return Ok(Status::Partial); } } Err(Error::Token) },\n        }\n    } else {\n        Err(Error::Token)")
# C20
m("c20_rescan_after_fold", ["C20"], L, "                simd::match_header_value_vectored(bytes);\n                let b = next!(bytes);\n\n                //found_ctl", "                simd::match_header_value_vectored(bytes);\n                if config.allow_obsolete_multiline_headers { let mut again = Bytes::new(bytes.as_ref()); let _ = &mut again; let whole = unsafe { core::slice::from_raw_parts(bytes.start(), bytes.pos()) }; let mut re = Bytes::new(whole); simd::match_header_value_vectored(&mut re); }\n                let b = next!(bytes);\n\n                //found_ctl")

# C04 (b): lifetime laundering — two sites that each look fine alone
def multi(name, props, edits, note=""):
    M.append(dict(name=name, props=props, edits=edits, note=note))
multi("c04_lifetime_laundering", ["C04"], [
    ("src/iter.rs", "    pub fn new(slice: &'a [u8]) -> Bytes<'a> {", "    pub fn new<'x>(slice: &'x [u8]) -> Bytes<'a> {"),
    ("src/lib.rs", "    fn parse_with_config_and_uninit_headers(\n        &mut self,\n        buf: &'b [u8],\n        config: &ParserConfig,\n        mut headers: &'h mut [MaybeUninit<Header<'b>>],\n    ) -> Result<usize> {\n        let orig_len = buf.len();\n        let mut bytes = Bytes::new(buf);\n        complete!(skip_empty_lines(&mut bytes));\n        let method", "    fn parse_with_config_and_uninit_headers(\n        &mut self,\n        buf: &[u8],\n        config: &ParserConfig,\n        mut headers: &'h mut [MaybeUninit<Header<'b>>],\n    ) -> Result<usize> {\n        let orig_len = buf.len();\n        let mut bytes = Bytes::new(buf);\n        complete!(skip_empty_lines(&mut bytes));\n        let method"),
    ("src/lib.rs", "    fn parse_with_config(&mut self, buf: &'b [u8], config: &ParserConfig) -> Result<usize> {\n        let headers = mem::take(&mut self.headers);\n\n        /* SAFETY", "    fn parse_with_config(&mut self, buf: &[u8], config: &ParserConfig) -> Result<usize> {\n        let headers = mem::take(&mut self.headers);\n\n        /* SAFETY"),
    ("src/lib.rs", "    pub fn parse(&mut self, buf: &'b [u8]) -> Result<usize> {\n        self.parse_with_config(buf, &Default::default())", "    pub fn parse(&mut self, buf: &[u8]) -> Result<usize> {\n        self.parse_with_config(buf, &Default::default())"),
], note="Bytes::new loses its input lifetime and Request::parse's buf is elided: fields no longer tied to the buffer")

def main():
    out = "/verif/mutants"
    os.makedirs(out, exist_ok=True)
    index = []
    assert subprocess.run(["git","-C","/repo","status","--porcelain","--untracked-files=no"],capture_output=True,text=True).stdout.strip()=="" , "repo dirty"
    for x in M:
        edits = x.get("edits") or [(x["file"], x["old"], x["new"])]
        bad = False
        for (f, old, new) in edits:
            p = os.path.join("/repo", f)
            s = open(p).read()
            if s.count(old) != 1:
                print("SKIP", x["name"], "old text found", s.count(old), "times in", f)
                bad = True
                break
            open(p, "w").write(s.replace(old, new))
        if bad:
            subprocess.run(["git","-C","/repo","checkout","--","."],check=True)
            continue
        d = subprocess.run(["git","-C","/repo","diff"],capture_output=True,text=True).stdout
        open(os.path.join(out, x["name"]+".diff"),"w").write(d)
        subprocess.run(["git","-C","/repo","checkout","--","."],check=True)
        index.append(dict(name=x["name"], expected_props=x["props"], note=x["note"]))
    json.dump(index, open(os.path.join(out,"index.json"),"w"), indent=1)
    print("wrote", len(index), "mutants")
main()
