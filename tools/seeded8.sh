#!/bin/bash
# tools/seeded4.sh <Cxx> [extra check ids...]   confirm + store + run the three round-4 deliverables of one agent
ID=$1; shift
for K in 1 2 3; do
  [ -f /tmp/wt8/$ID/out/patch$K.diff ] || { echo "$ID-$K: no patch"; continue; }
  WT=/tmp/wt8/$ID DSTNAME=r8-$ID-$K SEED_SOURCE="round 8 (adversarial): independent sub-agent given the property text, a scratch worktree and a general description of what a strong harness tries (model comparison under 128 configs, 256-value sweeps, all prefixes, counts around 2^8/2^16, every backend and a SIMD-less build, reused values, page boundaries); asked for (A) two cooperating edits, (B) a conjunction of three circumstances, (C) a multi-byte pattern or long-range relation" /verif/tools/seeded.sh $ID $K "$@" 2>&1 | grep -v "^$" | sed "s/^/[$ID-$K] /"
done
