#!/bin/bash
# tools/seeded4.sh <Cxx> [extra check ids...]   confirm + store + run the three round-4 deliverables of one agent
ID=$1; shift
for K in 1 2 3; do
  [ -f /tmp/wt10/$ID/out/patch$K.diff ] || { echo "$ID-$K: no patch"; continue; }
  WT=/tmp/wt10/$ID DSTNAME=r10-$ID-$K SEED_SOURCE="round 10 (adversarial, realistic): independent sub-agent given the property text, a scratch worktree and a general description of what a strong harness tries; asked for realistic regressions of kinds (A) two cooperating edits, (B) three circumstances, (C) a relation between two parts of the message" /verif/tools/seeded.sh $ID $K "$@" 2>&1 | grep -v "^$" | sed "s/^/[$ID-$K] /"
done
