#!/bin/bash
# tools/seeded4.sh <Cxx> [extra check ids...]   confirm + store + run the three round-4 deliverables of one agent
ID=$1; shift
for K in 1 2 3; do
  [ -f /tmp/wt6/$ID/out/patch$K.diff ] || { echo "$ID-$K: no patch"; continue; }
  WT=/tmp/wt6/$ID DSTNAME=r6-$ID-$K SEED_SOURCE="round 6: independent sub-agent given the property text, a scratch worktree of /repo and a focus (static half of C04 / build switches of C13 / no_std and history-dependent allocation for C19 / neon.rs only for C12 / framing kinds for C03 / lane-position hygiene for C05)" /verif/tools/seeded.sh $ID $K "$@" 2>&1 | grep -v "^$" | sed "s/^/[$ID-$K] /"
done
