#!/bin/bash
# tools/with_repo_copy.sh <copy-of-/verif> <copy-of-/repo>
# Point a COPY of /verif (e.g. a `vp run` snapshot) at a COPY of /repo: rewrites the path
# dependencies in the copy's harness and prints the export line. Never used by registered checks.
V="$1"; R="$2"
sed -i "s|path = \"/repo\"|path = \"$R\"|" "$V"/harness/vlib/Cargo.toml "$V"/harness/vcheck/Cargo.toml "$V"/harness/vdigest/Cargo.toml
echo "export VERIF_REPO=$R"
