#!/bin/bash
# tools/mutrun.sh filter <dir> <k> <n>    stage 1: mutants i with i % n == k: compile + the repository's tests
# tools/mutrun.sh checks <dir> <k> <n>    stage 2: test-surviving mutants i % n == k against the quick checks
# <dir> holds mNNNN.diff + index.tsv (tools/mutate.py). Each worker k uses its own scratch worktree of /repo
# (<dir>/w<k>/repo) and, for stage 2, its own copy of /verif pointed at it (<dir>/w<k>/verif). Results:
# <dir>/stage1.<k>.tsv (id, verdict) and <dir>/stage2.<k>.tsv (id, first catching check or SURVIVED, log).
set -u
MODE=$1; DIR=$2; K=$3; N=$4
if [ "$MODE" = checks ]; then W=$DIR/c$K; else W=$DIR/w$K; fi
export CARGO_NET_OFFLINE=true
mkdir -p $W
if [ ! -d $W/repo ]; then git -C /repo worktree add -q --detach $W/repo HEAD; fi
R=$W/repo

order_for() { # file line
  case "$1" in
    src/simd/neon.rs) echo "C12" ;;
    src/simd/*) echo "C12 C13 C01 C05 C08 C06 C02 C07 C14 C10 C11 C03 C04 C15 C16 C17 C18 C19 C20 C09" ;;
    src/iter.rs|src/macros.rs) echo "C01 C06 C08 C07 C14 C04 C20 C10 C11 C03 C02 C05 C09 C15 C16 C17 C18 C19 C12 C13" ;;
    *) if [ "$2" -ge 1270 ] && [ "$2" -le 1372 ]; then echo "C09 C11 C03 C02 C13 C01 C20 C19 C04 C05 C06 C07 C08 C10 C12 C14 C15 C16 C17 C18"
       else echo "C08 C06 C07 C14 C10 C11 C03 C17 C16 C18 C02 C05 C04 C15 C19 C20 C01 C12 C13 C09"; fi ;;
  esac
}

if [ "$MODE" = filter ]; then
  OUT=$DIR/stage1.$K.tsv; touch $OUT
  i=0
  while IFS=$'\t' read -r id file line op descr; do
    i=$((i+1)); [ $((i % N)) -eq $K ] || continue
    grep -q "^$id	" $OUT && continue
    git -C $R checkout -q -- .
    if ! git -C $R apply $DIR/$id.diff 2>/dev/null; then echo -e "$id\tnoapply" >> $OUT; continue; fi
    if [ "$file" = src/simd/neon.rs ]; then echo -e "$id\tsurvives-tests(not compiled on x86)" >> $OUT; continue; fi
    if ! (cd $R && cargo build --offline -q 2>/dev/null >/dev/null); then echo -e "$id\tnocompile" >> $OUT; continue; fi
    if ! (cd $R && timeout 300 cargo test --offline -q --lib -- --skip test_all_utf8_char_in_paths >/dev/null 2>&1); then echo -e "$id\tkilled-by-tests" >> $OUT; continue; fi
    if ! (cd $R && timeout 600 cargo test --workspace --no-fail-fast --offline -q >/dev/null 2>&1); then echo -e "$id\tkilled-by-tests" >> $OUT; continue; fi
    echo -e "$id\tsurvives-tests" >> $OUT
  done < $DIR/index.tsv
  git -C $R checkout -q -- .
  exit 0
fi

if [ "$MODE" = checks ]; then
  V=$W/verif
  if [ ! -d $V ]; then
    mkdir -p $V
    rsync -a --exclude target --exclude .git --exclude seeded --exclude 'replays/found' /verif/ $V/
    /verif/tools/with_repo_copy.sh $V $R >/dev/null
  fi
  export VERIF_REPO=$R VERIF_NO_EVIDENCE=1 VERIF_THREADS=${MUT_THREADS:-4}
  OUT=$DIR/stage2.$K.tsv; touch $OUT
  # x86 mutants first, the NEON ones (only C12's emulation can see them) last
  cat $DIR/stage1.*.tsv | grep "survives-tests$" | cut -f1 | sort > $W/todo
  cat $DIR/stage1.*.tsv | grep "survives-tests(" | cut -f1 | sort >> $W/todo
  i=0
  while read -r id; do
    i=$((i+1)); [ $((i % N)) -eq $K ] || continue
    cat $DIR/stage2.*.tsv | grep -q "^$id	" && continue
    row=$(grep "^$id	" $DIR/index.tsv); file=$(echo "$row" | cut -f2); line=$(echo "$row" | cut -f3)
    git -C $R checkout -q -- .
    git -C $R apply $DIR/$id.diff || { echo -e "$id\tnoapply" >> $OUT; continue; }
    res="SURVIVED"; trail=""
    for c in $(order_for $file $line | cut -d' ' -f1-${MUT_MAXCHECKS:-20}); do
      out=$(cd $V && timeout 1200 ./check $c quick 2>&1); rc=$?
      trail="$trail $c:$rc"
      if [ $rc -eq 1 ]; then res="$c $(echo "$out" | grep -m1 'signature:' | sed 's/ *signature: //')"; break; fi
      if [ $rc -ge 2 ]; then
        # inconclusive (build failure with hooks, crash under a non-crash property, ...): note and go on
        trail="$trail($(echo "$out" | grep -m1 -E 'INCONCLUSIVE|error' | cut -c1-80))"
      fi
    done
    echo -e "$id\t$res\t$trail" >> $OUT
  done < $W/todo
  git -C $R checkout -q -- .
  exit 0
fi
