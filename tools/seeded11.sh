#!/bin/bash
# tools/seeded11.sh <Cxx> [extra check ids...]   confirm + store + run the round-11 deliverable of one agent
ID=$1; shift
K=1
[ -f /tmp/wt11/$ID/out/patch$K.diff ] || { echo "$ID-$K: no patch"; exit 1; }
WT=/tmp/wt11/$ID DSTNAME=r11-$ID-$K SEED_SOURCE="round 11 (adversarial, realistic): independent sub-agent given only the property text and a scratch worktree; asked for one realistic regression that needs a specific length/alignment, a combination of circumstances, a relation between two parts of the message, or two cooperating edits" /verif/tools/seeded.sh $ID $K "$@" 2>&1 | grep -v "^$" | sed "s/^/[$ID-$K] /"
