#!/bin/bash
# tools/seeded4.sh <Cxx> [extra check ids...]   confirm + store + run the three round-4 deliverables of one agent
ID=$1; shift
for K in 1 2 3; do
  [ -f /tmp/wt9/$ID/out/patch$K.diff ] || { echo "$ID-$K: no patch"; continue; }
  WT=/tmp/wt9/$ID DSTNAME=r9-$ID-$K SEED_SOURCE="round 9 (adversarial): independent sub-agent given the property text, a scratch worktree and a general description of what a strong harness tries; asked for (A) two cooperating edits, (B) a conjunction of three circumstances, (C) a long-range relation or arithmetic property of the input" /verif/tools/seeded.sh $ID $K "$@" 2>&1 | grep -v "^$" | sed "s/^/[$ID-$K] /"
done
