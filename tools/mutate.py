#!/usr/bin/env python3
"""tools/mutate.py <repo> <outdir>   operator-based mutants of the crate's non-test code.

Writes one unified diff per mutant to <outdir>/mNNNN.diff and an index <outdir>/index.tsv
(id, file, line, operator, original -> mutated). Purely textual: mutants that do not compile
or that the repository's tests kill are filtered out later by tools/mutrun.sh.
Operators: relational flips, literal +-1, byte-literal swaps, error-kind swaps, boolean /
logical flips, arithmetic flips, statement deletion, range-bound shifts, lookup-table flips
(sampled at class boundaries)."""
import os, re, subprocess, sys, random

repo, out = sys.argv[1], sys.argv[2]
os.makedirs(out, exist_ok=True)
FILES = ["src/lib.rs", "src/iter.rs", "src/macros.rs", "src/simd/mod.rs", "src/simd/swar.rs",
         "src/simd/sse42.rs", "src/simd/avx2.rs", "src/simd/runtime.rs", "src/simd/neon.rs"]
ERRS = ["HeaderName", "HeaderValue", "NewLine", "Status", "Token", "TooManyHeaders", "Version"]
BYTE_SWAPS = {"b' '": ["b'\\t'"], "b'\\t'": ["b' '"], "b'\\r'": ["b'\\n'"], "b'\\n'": ["b'\\r'"], "b':'": ["b';'"],
              "b';'": ["b':'"], "b'0'": ["b'1'"], "b'9'": ["b'8'", "b':'"], "b'1'": ["b'2'"], "b'a'": ["b'b'"], "b'f'": ["b'g'", "b'e'"],
              "b'A'": ["b'B'"], "b'F'": ["b'G'", "b'E'"], "b'/'": ["b'.'"], "b'.'": ["b'/'"], "b'H'": ["b'I'"], "b'T'": ["b'U'"], "b'P'": ["b'Q'"]}

def code_lines(path, text):
    """indices of lines that are production code (no tests, no hooks, no comments/attributes)"""
    lines = text.split("\n")
    ok = [True] * len(lines)
    depth_skip = None
    i = 0
    while i < len(lines):
        l = lines[i].strip()
        if l.startswith("#[cfg(test)]") or l.startswith("#[test]") or "cfg(httparse_verif)" in l or l.startswith("#[cfg(all(test"):
            # skip the following item: up to the matching closing brace (or the `;` of a one-liner)
            j = i
            depth = 0
            seen = False
            while j < len(lines):
                ok[j] = False
                for ch in lines[j]:
                    if ch == '{':
                        depth += 1; seen = True
                    elif ch == '}':
                        depth -= 1
                if seen and depth <= 0:
                    break
                if not seen and lines[j].rstrip().endswith(";") and j > i:
                    break
                j += 1
            i = j + 1
            continue
        if l.startswith("//") or l.startswith("#[") or l.startswith("#![") or l == "" or l.startswith("use ") or l.startswith("pub use ") or l.startswith("mod ") or l.startswith("pub mod "):
            ok[i] = False
        i += 1
    return lines, ok

def strip_comment(l):
    # crude: cut at // outside of quotes
    q = False; i = 0
    while i < len(l) - 1:
        c = l[i]
        if c == '"': q = not q
        if c == '\\': i += 2; continue
        if not q and l[i:i+2] == "//": return l[:i]
        i += 1
    return l

muts = []  # (file, lineno, op, new_line_or_None, descr)

def add(f, n, op, new, descr):
    muts.append((f, n, op, new, descr))

for f in FILES:
    p = os.path.join(repo, f)
    if not os.path.exists(p): continue
    text = open(p).read()
    lines, ok = code_lines(f, text)
    in_table = False
    table_rows = []
    for n, l in enumerate(lines):
        if not ok[n]: continue
        code = strip_comment(l)
        tail = l[len(code):]
        # lookup tables: rows of "0, 1, 1, ..." inside byte_map! / static arrays
        if re.fullmatch(r"\s*([01], ){7,}[01],?\s*", code) or re.fullmatch(r"\s*([01], )+[01],\s*(//.*)?", l):
            table_rows.append((f, n, code, tail))
            continue
        def sub_each(pattern, repl_fn, op):
            for m in re.finditer(pattern, code):
                for r in repl_fn(m):
                    new = code[:m.start()] + r + code[m.end():] + tail
                    if new != l:
                        add(f, n, op, new, "%s -> %s" % (m.group(0).strip(), r.strip()))
        # relational
        REL = {" < ": [" <= "], " <= ": [" < "], " > ": [" >= "], " >= ": [" > "], " == ": [" != "], " != ": [" == "]}
        sub_each(r" (<=|>=|==|!=|<|>) ", lambda m: REL.get(m.group(0), []), "rel")
        # logical
        sub_each(r" && ", lambda m: [" || "], "logic")
        sub_each(r" \|\| ", lambda m: [" && "], "logic")
        sub_each(r"\btrue\b", lambda m: ["false"], "bool")
        sub_each(r"\bfalse\b", lambda m: ["true"], "bool")
        sub_each(r"if !", lambda m: ["if "], "neg")
        # integer literals (not part of identifiers / byte literals / type suffix positions)
        def lit(m):
            t = m.group(0)
            try:
                v = int(t.replace("_", ""), 16) if t.startswith("0x") else int(t.replace("_", ""))
            except ValueError:
                return []
            outs = []
            for w in (v + 1, v - 1):
                if w < 0: continue
                outs.append(("0x%x" % w) if t.startswith("0x") else str(w))
            return outs
        sub_each(r"(?<![\w'.])(0x[0-9a-fA-F_]+|\d[\d_]*)(?![\w'.])", lit, "lit")
        # byte literals
        sub_each(r"b'(\\.|[^'\\])'", lambda m: BYTE_SWAPS.get(m.group(0), []), "byte")
        # range bounds  b'x'..=b'y'
        def rng(m):
            lo, hi = m.group(1), m.group(2)
            outs = []
            if len(lo) == 1: outs.append("b'%s'..=b'%s'" % (chr(ord(lo) + 1), hi))
            if len(hi) == 1 and ord(hi) < 126: outs.append("b'%s'..=b'%s'" % (lo, chr(ord(hi) + 1)))
            if len(hi) == 1: outs.append("b'%s'..=b'%s'" % (lo, chr(ord(hi) - 1)))
            return outs
        sub_each(r"b'([^'\\])'\s*\.\.=\s*b'([^'\\])'", rng, "range")
        # mixed-notation ranges: b'!'..=0x7e  (hex bounds are covered by the literal operator)
        sub_each(r"b'([^'\\])'(?=\s*\.\.=\s*0x)", lambda m: ["b'%s'" % chr(ord(m.group(1)) + 1), "b'%s'" % chr(ord(m.group(1)) - 1)], "range")
        # error kinds
        def ek(m):
            k = m.group(1)
            i = ERRS.index(k)
            return ["Error::" + ERRS[(i + 1) % len(ERRS)], "Error::" + ERRS[(i + 3) % len(ERRS)]]
        if "Err(" in code or "=>" in code or "return" in code or "expect!" in code or "!" in code:
            sub_each(r"Error::(%s)\b" % "|".join(ERRS), ek, "errkind")
        # arithmetic
        sub_each(r" \+ ", lambda m: [" - "], "arith")
        sub_each(r" - ", lambda m: [" + "], "arith")
        sub_each(r" \+= ", lambda m: [" -= "], "arith")
        sub_each(r"\.wrapping_add\(", lambda m: [".wrapping_sub("], "arith")
        sub_each(r"\.wrapping_sub\(", lambda m: [".wrapping_add("], "arith")
        sub_each(r" & ", lambda m: [" | "], "bit")
        sub_each(r" \| ", lambda m: [" & "], "bit")
        sub_each(r" << ", lambda m: [" >> "], "bit")
        sub_each(r" >> ", lambda m: [" << "], "bit")
        sub_each(r"trailing_zeros", lambda m: ["leading_zeros", "trailing_ones"], "bit")
        sub_each(r"Status::Partial", lambda m: [], "status")
        # statement deletion: a line that is one complete statement / macro call
        s = code.strip()
        if s.endswith(";") and not s.startswith(("let ", "return", "pub ", "const ", "static ", "type ", "use ", "}", "break", "continue")) and s.count("(") == s.count(")") and "=>" not in s:
            add(f, n, "delete", re.sub(r"\S.*", "", code) + "/* deleted */" + tail, "delete `%s`" % s[:60])
        if s.startswith("return Err(") and s.endswith(";"):
            pass
        # return / break / continue swaps
        if s == "continue 'headers;" or s.startswith("continue"):
            add(f, n, "flow", code.replace("continue", "break") + tail, "continue -> break")
    # tables: flip entries at class boundaries (sampled)
    rnd = random.Random(12345)
    picks = []
    for (ff, n, code, tail) in table_rows:
        cells = [m for m in re.finditer(r"[01]", code)]
        for ci, m in enumerate(cells):
            left = cells[ci - 1].group(0) if ci > 0 else None
            right = cells[ci + 1].group(0) if ci + 1 < len(cells) else None
            boundary = (left is not None and left != m.group(0)) or (right is not None and right != m.group(0))
            if boundary or rnd.random() < 0.02:
                picks.append((ff, n, code, tail, m))
    for (ff, n, code, tail, m) in picks:
        new = code[:m.start()] + ("1" if m.group(0) == "0" else "0") + code[m.end():] + tail
        add(ff, n, "table", new, "table cell %d: %s flipped" % (m.start(), m.group(0)))

# de-duplicate and write diffs
seen = set()
idx = open(os.path.join(out, "index.tsv"), "w")
k = 0
cache = {}
for (f, n, op, new, descr) in muts:
    key = (f, n, new)
    if key in seen: continue
    seen.add(key)
    if f not in cache:
        cache[f] = open(os.path.join(repo, f)).read().split("\n")
    orig = cache[f]
    a = "\n".join(orig)
    mod = list(orig); mod[n] = new
    import difflib
    d = list(difflib.unified_diff([x + "\n" for x in orig], [x + "\n" for x in mod], "a/" + f, "b/" + f, n=3))
    # the last line of the file has no trailing newline marker issue: files end with "\n" so the split leaves a final ""
    txt = "".join(d)
    if not txt: continue
    k += 1
    name = "m%04d" % k
    open(os.path.join(out, name + ".diff"), "w").write(txt)
    idx.write("%s\t%s\t%d\t%s\t%s\n" % (name, f, n + 1, op, descr.replace("\t", " ")))
idx.close()
print(k, "mutants")
