#!/bin/bash
# tools/runmutant.sh [--tests] <patch.diff> [ID...]   apply a mutant to /repo, run checks (quick), revert.
# Prints one line per check: CAUGHT / missed / inconclusive. Evidence files are not touched.
set -u
TESTS=0
if [ "$1" = "--tests" ]; then TESTS=1; shift; fi
PATCH="$1"; shift
IDS="$*"
V="$(cd "$(dirname "$0")/.." && pwd)"; REPO="${VERIF_REPO:-/repo}"
cd "$V"
if [ -n "$(git -C $REPO status --porcelain --untracked-files=no)" ]; then echo "repo dirty"; exit 3; fi
trap 'git -C $REPO checkout -- . 2>/dev/null' EXIT
PATCH=$(realpath "$PATCH"); if ! git -C $REPO apply "$PATCH"; then echo "APPLY-FAILED $PATCH"; exit 3; fi
name=$(basename "$PATCH" .diff)
if [ $TESTS = 1 ]; then
  if (cd $REPO && cargo test --workspace --no-fail-fast --offline >/tmp/mut_tests.log 2>&1); then echo "$name: repo tests PASS"; else echo "$name: repo tests FAIL (not a valid mutant)"; grep -E "^test .* FAILED|panicked" /tmp/mut_tests.log | head -5; fi
fi
for id in $IDS; do
  t0=$(date +%s.%N)
  out=$(VERIF_NO_EVIDENCE=1 ./check $id quick 2>&1); rc=$?
  t1=$(date +%s.%N)
  dt=$(printf "%.1f" $(echo "$t1 - $t0" | bc))
  case $rc in
    1) sig=$(echo "$out" | grep -m1 "signature:" | sed 's/ *signature: //'); echo "$name $id CAUGHT (${dt}s) $sig" ;;
    0) echo "$name $id missed (${dt}s)" ;;
    *) echo "$name $id inconclusive rc=$rc (${dt}s) $(echo "$out" | grep -m1 -E 'INCONCLUSIVE|error' )" ;;
  esac
done
