#!/bin/bash
# tools/runmutants.sh [--tests] [name-filter]  run every hand mutant against its expected properties
cd /verif
T=""; if [ "${1:-}" = "--tests" ]; then T="--tests"; shift; fi
F="${1:-}"
IMPL=$(python3 -c "import json; print(' '.join(c['property_id'] for c in json.load(open('MANIFEST.json'))['checks']))")
python3 - "$F" <<PY > /tmp/mutlist.txt
import json,sys
impl="$IMPL".split()
for x in json.load(open('/verif/mutants/index.json')):
    if sys.argv[1] in x['name']:
        print(x['name'], ' '.join(p for p in x['expected_props'] if p in impl))
PY
while read name ids; do
  tools/runmutant.sh $T mutants/$name.diff $ids
done < /tmp/mutlist.txt
