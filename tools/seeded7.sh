#!/bin/bash
# tools/seeded4.sh <Cxx> [extra check ids...]   confirm + store + run the three round-4 deliverables of one agent
ID=$1; shift
for K in 1 2 3; do
  [ -f /tmp/wt7/$ID/out/patch$K.diff ] || { echo "$ID-$K: no patch"; continue; }
  WT=/tmp/wt7/$ID DSTNAME=r7-$ID-$K SEED_SOURCE="round 7: independent sub-agent given only the property text and a scratch worktree of /repo, asked for (A) two cooperating edits, (B) a combination/sequence/build-variant trigger, (C) a very specific input shape" /verif/tools/seeded.sh $ID $K "$@" 2>&1 | grep -v "^$" | sed "s/^/[$ID-$K] /"
done
