#!/usr/bin/env python3
"""Generates /verif/MANIFEST.json. Edit IMPLEMENTED / the texts here, then run it."""
import json, os, subprocess

VERIF = os.path.dirname(os.path.dirname(os.path.abspath(__file__)))

import re
IMPLEMENTED = sorted(set(re.findall(r'"(C\d\d)"', open(os.path.join(VERIF, "harness/vlib/src/props/mod.rs")).read())))

T_MODEL = "generated inputs under the native, the scalar and the SSE4.2 scanner backend and in a SIMD-disabled build (bounded-exhaustive class-alphabet enumeration, 256-value byte sweeps, lane-phase families, proptest-driven grammar generation with mutations and shrinking) compared with an independent executable reference model, which is itself checked against the expectations extracted from the repository's own tests"
T_META = "generated inputs (proptest-driven grammar generation with mutations and shrinking, bounded-exhaustive enumeration, boundary-count / byte-pair / after-blank sweeps; native, forced-scalar, forced-SSE4.2 and cold-start passes, SIMD-disabled build) judged by a metamorphic / differential relation between runs of the real parser"

CHECKS = {
 "C01": dict(tech="generated inputs placed against guard pages, run through every entry point / config / capacity / backend in release and debug-assertion builds; crash containment by supervisor+worker; valgrind memcheck on exact-size heap allocations of the production build; libFuzzer+ASan in the thorough tier",
   text="Exploration: millions of generated and enumerated buffers (grammar-derived with mutations, class strings, raw bytes, every length 0..=300 of base messages, scale families to 1 MiB) are parsed through all entry points, 128 configs, capacities incl. 0, three placements against PROT_NONE guard pages and each runtime backend, in a release and a debug-assertion+overflow-check build. Any signal, panic, out-of-range offset or write outside the caller's header array is a violation. This is the right level because the property is a universally quantified crash/UB-freedom claim that only search plus sanitising placement can attack; it does not prove absence.",
   note="x86-64 only (no 32-bit, aarch64 or big-endian target installed); over-reads that stay inside the arena and the same page are invisible to guard pages, which is why buffers end on the page edge, memcheck runs the production build on exact-size heap allocations in both tiers and ASan is used in the thorough tier (Miri proved too slow for this harness and is not used)", ref="5/C01"),
 "C02": dict(tech=T_META+": prefix closure (all split points) and replayed chunking histories",
   text="Exploration with a pure metamorphic oracle: for generated base buffers of all four kinds, every prefix is parsed in its own exact-length guard-page buffer; Complete/Err must be stable under extension with identical fields and headers, prefixes shorter than n must be Partial, fields reported with Partial must equal the final ones, and a generated chunking history must end in the one-shot answer.",
   note="bounded by generated buffers (all split points for len<=400, 64 sampled beyond)", ref="5/C02"),
 "C03": dict(tech=T_META+": independent linear scan for the first empty line",
   text="Exploration: n of every Complete is compared with an independent ~30-line scan for the first empty line; every Partial is checked for the absence of such a line; chunk-size n against the first CRLF. All 128 configs, capacities, entry points.",
   note="the Partial direction under allow_space_before_first_header_name demands only strictly empty lines (weaker, never wrong)", ref="5/C03"),
 "C04": dict(tech="generated inputs judged by pointer-range arithmetic; plus a completely enumerated grammar of minimal client programs compiled with rustc (negative programs must fail borrow checking, positive controls must compile)",
   text="Exploration: (a) every slice reachable after a call is checked by pointer arithmetic against [buf, buf+len), against buf[..n] on Complete and for strict input order without overlap; (b) a small grammar of escaping client programs (entry point x field x escape pattern) is enumerated completely and each is compiled against the rlib built from the current tree: negatives must be rejected with a borrow-check error, positive controls must compile.",
   note="(b) is a finite corpus of minimal escapes, not all safe programs; rustc's borrow checker is trusted", ref="5/C04"),
 "C05": dict(tech=T_META+": class predicates written from the statement applied to every returned field; 256-value sweeps at every position and lane phase",
   text="Exploration: predicates transcribed from the statement (tchar, target bytes + UTF-8, version, three-digit code re-read from the buffer, reason and value classes, trimming, no NUL / bare CR in buf[..n]) are applied to every result of byte sweeps (256 values x every position x bases x configs), lane-phase families and random grammar-derived messages.",
   note="predicates are independent of the crate's tables; bounded by the generated domain", ref="5/C05"),
 "C06": dict(tech=T_MODEL, text="Exploration against an exact oracle: the reference model decides verdict class, offset and method/path/version byte ranges for request lines; byte sweeps and token-level bounded-exhaustive enumeration cover all short lines completely, targets of every length 1..=100 cover all scanner block phases.",
   note="the model is my reading of the statement (common-mode risk); error kinds are left to C10", ref="5/C06"),
 "C07": dict(tech=T_MODEL, text="Exploration against an exact oracle: the reference model decides verdict class, offset and version/code/reason for status lines; all 1000 codes, reasons of every length 0..=70 with every class representative at every position, byte sweeps and token-level bounded-exhaustive enumeration.",
   note="the model is my reading of the statement (common-mode risk)", ref="5/C07"),
 "C08": dict(tech=T_MODEL, text="Exploration against an exact oracle: under the default config the model decides verdict class, offset and the exact ordered list of (name,value) ranges for header blocks given to parse_headers, Request::parse and Response::parse; bounded-exhaustive over an 11-symbol class alphabet after 8 resume contexts, 256-value sweeps, lane phases 0..=100.",
   note="the model is my reading of the statement (common-mode risk)", ref="5/C08"),
 "C09": dict(tech=T_MODEL+", in release and debug-assertion builds", text="Exploration against an exact oracle computed in u128: bounded-exhaustive over a 14-symbol alphabet, digit counts 0..=20 with boundary patterns, prefixes, long random extensions; the whole domain is run by a release and a debug-assertion/overflow-check build, each compared with the model, so profile independence follows on everything explored.",
   note="model_chunk is my reading of the statement", ref="5/C09"),
 "C10": dict(tech=T_MODEL+" (error-kind set of the first offending byte; TooManyHeaders precedence family)", text="Exploration: for every rejected buffer of the C06/C07/C08/C14 domains the error kind must lie in the model's acceptable set for the element of the first offending byte; a dedicated family (k lines x capacity 0..=k+1 x tails x fold x every cut) decides TooManyHeaders 'exactly when'.",
   note="where the statement is silent (NUL / bare CR met while skipping an ignored line) the model accepts a two-element set", ref="5/C10"),
 "C11": dict(tech=T_META+": existential witness search with the real parser (model-proposed completion, then a fixed universal suffix set)",
   text="Exploration: every Partial met in prefix closures of generated and enumerated inputs must have a continuation that the real parser completes; candidates are the model's proposed completion and ~60 universal suffixes and their pairwise concatenations; only the two stated exceptions are excluded (counted).",
   note="the witness search is incomplete in principle; silence on the unchanged tree over many seeds is the evidence that it suffices", ref="5/C11"),
 "C12": dict(tech="bounded-exhaustive enumeration of scanner inputs (length x position x 256 values x alignment, pairs of offending positions, SWAR block alphabet^8) against a naive position() oracle; NEON through a bit-exact emulation of its intrinsics",
   text="Exploration, exhaustive over the stated grid: every backend x class scanner must stop exactly at the first out-of-class byte for every length 0..=100, position, byte value and alignment, with buffers ending at a guard page; SWAR block functions over a boundary alphabet^8; class predicates over all 256 bytes.",
   note="NEON is checked through an emulation of the 12 intrinsics it uses, not on hardware; word size 8 only", ref="5/C12"),
 "C13": dict(tech="differential testing of build variants on a shared generated corpus (per-case result hashes), exhaustive compile check of the 32 switch combinations, cold-start race stress with the feature cell reset",
   text="Exploration: a deterministic generated corpus is parsed by vdigest binaries built in each variant (runtime-detect, forced backends, compile-time sse4.2/avx2, SIMD disabled, no_std; release and debug) at three alignments and the per-case hashes must agree; all 32 switch combinations must compile; cold-start races of 16 threads are repeated thousands of times.",
   note="thread timing is stressed, not enumerated (the harness does not own the scheduler); every value of the cached cell is enumerated instead; x86-64 variants only", ref="5/C13"),
 "C14": dict(tech=T_MODEL+" parameterised by the same options; plus a metamorphic strict-vs-lenient comparison", text="Exploration against an exact oracle: 16 header-option combinations x {request,response}; bounded-exhaustive over the 11-symbol alphabet after 8 contexts, 256-value sweeps over bases written for each option and pair, lane phases, random blocks with fold/whitespace/invalid-line weights raised; strict-valid blocks must be reported identically under every option set.",
   note="the model is my reading of the option documentation (common-mode risk)", ref="5/C14"),
 "C15": dict(tech=T_META+": default-accepted buffers under all 128 configs; any buffer under configs differing only in other-kind options",
   text="Exploration with a metamorphic oracle: every default-Complete generated buffer is re-parsed under all 128 configs and must give the identical result (modulo the documented reason-phrase exception); every buffer is parsed under all pairs of configs that differ only in other-kind bits and must give identical results.",
   note="bounded by the generated domain", ref="5/C15"),
 "C16": dict(tech=T_META+": differential comparison of the 4 request, 3+1 response and 1 header entry points, on fresh values and over sequences of calls on one reused value",
   text="Exploration with a differential oracle: the entry points of a kind must agree on status, fields, headers and the caller's array for the same buffer/config/capacity; parse_headers(h) must agree with the header part of a request/response whose start line is followed by h (six fixed start lines, and the generated message's own start line); the same sequence of 2..4 buffers parsed on one reused value through each entry point must leave the same state after every call.",
   note="Response has no parse_with_uninit_headers of its own; the fourth response entry is ParserConfig::default().parse_response_with_uninit_headers", ref="5/C16"),
 "C17": dict(tech=T_META+": capacity sweep 0..=k+2 against the unlimited-capacity run, sentinel/poison-prefilled arrays in a guard-page arena",
   text="Exploration: arrays are pre-filled with recognisable sentinels (initialised entry points) or poison (uninit entry points) and abut a guard page; count, untouched slots, the capacity law against the capacity-64 run, and the state of `headers` after Partial/Err are checked for every capacity 0..=k+2.",
   note="bounded by generated blocks with k=0..12 lines", ref="5/C17"),
 "C18": dict(tech="stateful generation: histories of 1..4 earlier parse calls on one Request/Response followed by a probe, compared with the probe on a fresh value",
   text="Exploration over call histories (vec(op)+interpreter, shrunk as one value): the probe's status, and fields/headers on Complete, must equal those of a fresh value whose array length equals the reused value's headers.len() just before the probe; while no call has completed the value must still lend the caller's whole array (the documented loop behaves like a fresh value each time).",
   note="bounded by histories of length <= 4", ref="5/C18"),
 "C19": dict(tech="generated inputs under a counting global allocator armed around each call, in release and debug-assertion builds; build of the crate against core only",
   text="Exploration: a counting #[global_allocator] with a thread-local armed flag set around exactly the call must see zero allocator calls for all entry points, configs and outcomes (histogram shows each populated); cargo +nightly build -Zbuild-std=core --target x86_64-unknown-none --no-default-features must succeed.",
   note="allocation is observed through the global allocator only", ref="5/C19"),
 "C20": dict(tech="adversarial parametric input families up to 1 MiB judged by instrumentation counters (hook H3); instruction-count scaling of the production build under cachegrind (both tiers)",
   text="Exploration: per-call counters of the cursor primitives (advance bytes, backward set_cursor, peek_n calls, other primitive calls) on adversarial families at 1 KiB..1 MiB must satisfy the forward-only invariants and the linear bounds; measured maxima are recorded.",
   note="counter bounds are constants derived from the statement and validated against measured maxima on the unchanged tree; wall-clock time is never judged", ref="5/C20"),
}

def main():
    repo_commits = subprocess.run(["git","-C","/repo","log","--format=%h %s"],capture_output=True,text=True).stdout.strip().split("\n")
    hook_commits = [c.split()[0] for c in repo_commits if c.split(" ",1)[1].startswith("verif hook")]
    checks = []
    na = []
    for i in range(1, 21):
        pid = "C%02d" % i
        c = CHECKS[pid]
        if pid in IMPLEMENTED:
            checks.append({
                "property_id": pid,
                "quick_cmd": "./check %s quick" % pid,
                "thorough_cmd": "./check %s thorough" % pid,
                "evidence_file": "/verif/evidence/%s.json" % pid,
                "replay_cmd_template": "./check %s --replay {path}" % pid,
                "engine": "vcheck",
                "level_claimed": {"category": "exploration", "text": c["text"], "design_ref": "DESIGN.md section " + c["ref"]},
                "level_note": c["note"],
                "technique": c["tech"],
            })
        else:
            na.append({"property_id": pid, "reason": "check not built yet in this round (design in DESIGN.md section %s); not claimed until it runs" % c["ref"]})
    m = {
        "version": 1,
        "setup_cmd": "./check setup",
        "hooks": {
            "guard": "--cfg httparse_verif",
            "enable": "RUSTFLAGS='--cfg httparse_verif' (set by ./check for every harness build; /repo's Cargo.toml lists cfg(httparse_verif) in check-cfg so that the guard-off test build with deny(warnings) still compiles)",
            "baseline_off_cmd": "cd /repo && cargo test --workspace --no-fail-fast --offline",
            "source_commits": hook_commits,
            "add_only": True,
        },
        "engines": [
            {"name": "vcheck", "path": "/verif/harness", "serves_properties": IMPLEMENTED,
             "kind_free_text": "Rust harness (vlib + vcheck): choice-byte decoders driven by proptest (seeded, shrinking) and bounded-exhaustive enumerators; guard-page arenas; supervisor+worker crash containment; reference model; per-property oracles"},
        ],
        "checks": checks,
        "not_applicable": na,
        "notes": "All checks are property-based testing / fuzzing: generated or enumerated inputs judged by an explicit oracle. VERIF_SEED selects the proptest seed; tiers are fixed work. Exit 2 = could not decide (never a violation). Known findings: /verif/KNOWN_FINDINGS.txt.",
    }
    json.dump(m, open(os.path.join(VERIF, "MANIFEST.json"), "w"), indent=1)
    print("wrote MANIFEST.json with", len(checks), "checks;", len(na), "not claimed")

main()
