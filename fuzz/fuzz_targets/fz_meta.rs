#![no_main]
//! libFuzzer target: bytes -> structured case(s) -> the same check functions as ./check (oracle inside).
use libfuzzer_sys::fuzz_target;

fuzz_target!(|data: &[u8]| {
    if let Err((prop, v)) = vlib::fuzzdec::fuzz_one("fz_meta", data, true) {
        panic!("VIOLATION property={} signature={} detail={}", prop, v.sig, v.detail);
    }
});
