//! vlib: the only place where the properties of /verif/properties.jsonl are stated as
//! code. See /verif/DESIGN.md.

pub mod alloc;
pub mod arena;
pub mod choice;
pub mod cmp;
pub mod engine;
pub mod fuzzdec;
pub mod gen;
pub mod model;
pub mod neon_emu;
#[allow(dead_code, unused, clippy::all, unsafe_op_in_unsafe_fn)]
pub mod neon_gen {
    include!(concat!(env!("OUT_DIR"), "/neon_gen.rs"));
}
pub mod props;
pub mod real;
pub mod selftest;

/// the repository under test (default /repo; VERIF_REPO selects a copy, used only for
/// side experiments such as background thorough runs and mutant testing on a scratch copy)
pub fn repo_dir() -> String {
    std::env::var("VERIF_REPO").unwrap_or_else(|_| "/repo".to_string())
}

pub fn verif_dir() -> String {
    std::env::var("VERIF_DIR").unwrap_or_else(|_| "/verif".to_string())
}
