//! C01 — total and memory-safe. Every case goes through the guard-page arenas; any
//! panic (incl. debug assertions / overflow checks in the dbg build), out-of-range
//! offset or write next to the caller's array is a violation; a fault kills the worker
//! and is re-confirmed by the supervisor.

use super::common::*;
use crate::arena::Placement;
use crate::choice::Choice;
use crate::engine::{mix, CaseRec, Local, Lcg, Runner, Violation};
use crate::gen::{self, Profile, HDR_ALPHABET, START_ALPHABET, CHUNK_ALPHABET};
use crate::real::*;

pub fn check(r: &Runner, ctx: &mut Ctx, l: &mut Local, rec: &CaseRec) -> Result<(), Violation> {
    if rec.sub == "memcheck" {
        return check_memcheck_case(r, l, rec);
    }
    if rec.sub == "memcheck-hang" {
        let name = rec.bufs.first().map(|b| String::from_utf8_lossy(b).to_string()).unwrap_or_else(|| "runtime".into());
        if let Some(v) = super::p_variants::VARIANTS.iter().find(|v| v.name == name) {
            if let Ok(bin) = super::p_variants::build_variant(v) {
                let mut one = rec.clone();
                one.bufs.clear();
                if let Ok(false) = native_returns(&bin, &[one], &format!("replay{}", std::process::id()), 30) {
                    return Err(Violation::new("C01/non-termination", format!("production vdigest build `{}`: the parse of this case does not return within 30 s", name), rec));
                }
            }
        }
        r.account(l, rec, true, "memcheck-hang replay");
        return Ok(());
    }
    if rec.sub == "total-history" {
        // a history on one reused value: only "no call panics" is C01's business here
        return match super::p_hist::check(r, ctx, l, rec) {
            Err(v) if v.sig == "C18/panic" => Err(Violation::new(
                "C01/panic/reused-value",
                format!("a call in a sequence of calls on one reused Request/Response panicked [{} cfg={:#04x} cap={}; history ops {:?}]", rec.entry.name(), rec.cfg, rec.cap, rec.aux),
                rec,
            )),
            _ => Ok(()),
        };
    }
    let hdr_at_end = rec.aux.first().copied().unwrap_or(1) != 0;
    let prefill = if rec.aux.get(1).copied().unwrap_or(0) != 0 { Prefill::Sentinel } else { Prefill::Empty };
    let obs = ctx.run(&Spec {
        entry: rec.entry,
        cfg: rec.cfg,
        cap: rec.cap,
        place: rec.place,
        hdr_at_end,
        prefill,
        buf: &rec.buf,
    });
    let v = |sig: &str, d: String| {
        Err(Violation::new(sig.to_string(), format!("{} [{} cfg={:#04x} cap={} placement={:?} backend={}]", d, rec.entry.name(), rec.cfg, rec.cap, rec.place, backend_name(rec.backend)), rec))
    };
    match &obs.st {
        St::Panic(m) => {
            let short: String = m.chars().take(60).collect();
            return v(&format!("C01/panic/{}", short.replace(' ', "_")), format!("the call panicked: {}", m));
        }
        St::Complete(n) if *n > rec.buf.len() => {
            return v("C01/offset-beyond-buffer", format!("Complete({}) for a buffer of {} bytes", n, rec.buf.len()));
        }
        _ => {}
    }
    if !obs.canary_ok {
        return v("C01/write-outside-array", "bytes next to the caller's header array were overwritten".into());
    }
    if l.counting {
        l.bump(status_hist_key(&obs.st));
        l.bump(kind_hist_key(rec.kind()));
        l.bump(match rec.place {
            Placement::End => "placement:end-abutting",
            Placement::Start => "placement:start-abutting",
            Placement::Interior(_) => "placement:interior",
            Placement::Cross(_) => "placement:straddling-a-page-boundary",
        });
        if rec.cap == 0 {
            l.bump("capacity:0");
        }
        if rec.buf.len() >= 4096 {
            l.bump("len>=4KiB");
        }
    }
    let past_start = obs.method.is_some()
        || obs.version.is_some()
        || (matches!(rec.kind(), Kind::Headers | Kind::Chunk) && rec.buf.len() >= 2);
    let nt = past_start && !matches!(rec.place, Placement::Interior(_));
    r.account(l, rec, nt, &obs.st.show());
    Ok(())
}

fn decorate(u: &mut Choice, rec: &mut CaseRec, be: u8) {
    rec.backend = be;
    let at_end = !u.chance(64);
    let sentinel = u.chance(64);
    rec.aux = vec![at_end as u64, sentinel as u64];
}

pub const RAMP_BASES: [(&[u8], Entry, u8); 10] = [
    (b"GET /wp-content/uploads/2010/03/hello-kitty-darth-vader-pink.jpg HTTP/1.1\r\nHost: www.kittyhell.com\r\nUser-Agent: Mozilla/5.0 (Macintosh; U; Intel Mac OS X 10.6; ja-JP-mac; rv:1.9.2.3) Gecko/20100401 Firefox/3.6.3 Pathtraq/0.9\r\nAccept: text/html,application/xhtml+xml,application/xml;q=0.9,*/*;q=0.8\r\nAccept-Language: ja,en-us;q=0.7,en;q=0.3\r\nAccept-Encoding: gzip,deflate\r\nAccept-Charset: Shift_JIS,utf-8;q=0.7,*;q=0.7\r\nKeep-Alive: 115\r\nConnection: keep-alive\r\n\r\n", Entry::ReqParse, 0),
    (b"POST /submit/a/very/long/path/that/goes/on/and/on/0123456789012345678901234567890123456789 HTTP/1.0\nContent-Length: 5\n\nhello", Entry::ReqCfg, C_IGNORE_REQ),
    (b"HTTP/1.1 200 OK\r\nServer: nginx/1.2.3 and some more text to make this value longer than thirty-two bytes\r\nContent-Type: text/html; charset=utf-8\r\nX-Obs: caf\xc3\xa9 \xff\xfe\r\n\r\n<html>", Entry::RespParse, 0),
    (b"HTTP/1.1 200 A reason phrase that is longer than thirty-two bytes, with\ttabs\r\nFolded: one\r\n two two two two two two two two two two two\r\n\tthree\r\nSpaced \t: v\r\n\r\n", Entry::RespCfg, C_MULTILINE | C_SPACES_AFTER_NAME),
    (b"HTTP/1.1  200  OK\r\n \tLead: v\r\nbad line here that is long enough to cross a block boundary......\r\nA: b\r\n\r\n", Entry::RespCfg, 0x7f),
    (b"Host: example.com\r\nAccept: */*\r\nA-Very-Long-Header-Name-That-Crosses-Several-Eight-Byte-Words-0123456789: v\r\n\r\n", Entry::Headers, 0),
    (b"3735AB1 \t; some chunk extension that goes on for a while = \"quoted\"\r\ndata", Entry::Chunk, 0),
    (b"POST / HTTP/1.1\r\n\r\n", Entry::ReqUninit, 0),
    (b"GET /\xe2\x82\xac\xe2\x82\xac\xe2\x82\xac\xe2\x82\xac\xe2\x82\xac\xe2\x82\xac\xe2\x82\xac\xe2\x82\xac\xe2\x82\xac\xe2\x82\xac\xe2\x82\xac\xe2\x82\xac HTTP/1.1\r\nA: b\r\n\r\n", Entry::ReqCfgUninit, C_MULTISPACE_REQ),
    (b"HTTP/1.0 404 Not Found\r\nA: b\r\nC: d\r\nE: f\r\nG: h\r\nI: j\r\n\r\n", Entry::RespCfgUninit, C_IGNORE_RESP),
];

/// Wait for a child with a time budget, keeping the stall monitor quiet meanwhile.
/// Ok(None) = the budget expired and the child was killed.
fn wait_budget(mut child: std::process::Child, secs: u64) -> Result<Option<std::process::Output>, String> {
    use std::io::Read;
    // stderr is drained on a thread so that a chatty child cannot block on a full pipe
    let mut errpipe = child.stderr.take();
    let reader = std::thread::spawn(move || {
        let mut s = Vec::new();
        if let Some(p) = errpipe.as_mut() {
            let _ = p.read_to_end(&mut s);
        }
        s
    });
    let t0 = std::time::Instant::now();
    loop {
        match child.try_wait() {
            Ok(Some(st)) => {
                let stderr = reader.join().unwrap_or_default();
                return Ok(Some(std::process::Output { status: st, stdout: vec![], stderr }));
            }
            Ok(None) => {
                if t0.elapsed().as_secs() > secs {
                    let _ = child.kill();
                    let _ = child.wait();
                    let _ = reader.join();
                    return Ok(None);
                }
                crate::engine::PROGRESS.fetch_add(1, std::sync::atomic::Ordering::Relaxed);
                std::thread::sleep(std::time::Duration::from_millis(20));
            }
            Err(e) => return Err(e.to_string()),
        }
    }
}

/// Run the variant natively (no valgrind) on the cases: Ok(true) = it returned, Ok(false) =
/// it did not return within `secs` (the whole corpus normally takes milliseconds).
fn native_returns(bin: &std::path::Path, cases: &[CaseRec], tag: &str, secs: u64) -> Result<bool, String> {
    let dir = format!("{}/target/c01", crate::verif_dir());
    let _ = std::fs::create_dir_all(&dir);
    let corpus = format!("{}/native-{}.bin", dir, tag);
    super::p_variants::write_corpus(&corpus, cases);
    let child = std::process::Command::new(bin)
        .arg("--exact")
        .arg(&corpus)
        .stdout(std::process::Stdio::null())
        .stderr(std::process::Stdio::piped())
        .spawn_dwp()
        .map_err(|e| e.to_string());
    let res = match child {
        Ok(c) => wait_budget(c, secs).map(|o| o.is_some()),
        Err(e) => Err(e),
    };
    let _ = std::fs::remove_file(&corpus);
    res
}

fn memcheck_run(bin: &std::path::Path, cases: &[CaseRec], tag: &str) -> Result<(Option<i32>, String), String> {
    let dir = format!("{}/target/c01", crate::verif_dir());
    let _ = std::fs::create_dir_all(&dir);
    let corpus = format!("{}/memcheck-{}.bin", dir, tag);
    super::p_variants::write_corpus(&corpus, cases);
    let child = std::process::Command::new("valgrind")
        .args(["--tool=memcheck", "-q", "--error-exitcode=9", "--redzone-size=128", "--leak-check=no", "--undef-value-errors=no"])
        .arg(bin)
        .arg("--exact")
        .arg(&corpus)
        .stdout(std::process::Stdio::null())
        .stderr(std::process::Stdio::piped())
        .spawn_dwp()
        .map_err(|e| e.to_string());
    let out = match child {
        Ok(c) => wait_budget(c, crate::engine::env_u64("VERIF_MEMCHECK_BUDGET_S", 1800)),
        Err(e) => Err(e),
    };
    let _ = std::fs::remove_file(&corpus);
    match out {
        Ok(Some(o)) => Ok((o.status.code(), String::from_utf8_lossy(&o.stderr).to_string())),
        // a time budget hit is inconclusive, never a violation
        Ok(None) => Err("valgrind memcheck run exceeded its time budget".into()),
        Err(e) => Err(e),
    }
}

fn memcheck_bad(res: &Result<(Option<i32>, String), String>) -> bool {
    matches!(res, Ok((code, err)) if *code == Some(9) || err.contains("Invalid read") || err.contains("Invalid write"))
}

/// replay of one memcheck case: rec.bufs[0] = variant name
fn check_memcheck_case(r: &Runner, l: &mut Local, rec: &CaseRec) -> Result<(), Violation> {
    let name = rec.bufs.first().map(|b| String::from_utf8_lossy(b).to_string()).unwrap_or_else(|| "runtime".into());
    let v = match super::p_variants::VARIANTS.iter().find(|v| v.name == name) {
        Some(v) => v,
        None => return Ok(()),
    };
    let bin = match super::p_variants::build_variant(v) {
        Ok(b) => b,
        Err((_, m)) => {
            r.inconclusive.lock().unwrap().push(format!("cannot build vdigest variant {}: {}", name, m));
            return Ok(());
        }
    };
    let mut one = rec.clone();
    one.bufs.clear();
    let res = memcheck_run(&bin, &[one], &format!("replay{}", std::process::id()));
    if memcheck_bad(&res) {
        let err = res.unwrap().1;
        let first = err.lines().filter(|l| l.contains("Invalid") || l.contains("at 0x") || l.contains("by 0x") || l.contains("Address")).take(6).collect::<Vec<_>>().join(" | ");
        return Err(Violation::new(
            format!("C01/memcheck/{}", if err.contains("Invalid write") { "invalid-write" } else { "invalid-read" }),
            format!("valgrind memcheck, production vdigest build `{}`, buffer and header array in exact-size heap allocations: {}", name, first),
            rec,
        ));
    }
    r.account(l, rec, true, "memcheck case");
    Ok(())
}

/// valgrind memcheck on the production build of vdigest with every buffer (and header array)
/// in its own exact-size heap allocation: sees reads past the end of the buffer that stay
/// inside the page (which guard pages cannot see) and that go through vector-load intrinsics
/// (which ASan does not instrument).
fn memcheck_phase(r: &Runner) {
    use std::process::Command;
    let t0 = std::time::Instant::now();
    if Command::new("valgrind").arg("--version").output().is_err() {
        r.inconclusive.lock().unwrap().push("valgrind not available".into());
        return;
    }
    let names: &[&str] = if r.quick() { &["runtime", "ct-sse42"] } else { &["runtime", "ct-sse42", "simd-disabled", "ct-avx2", "no_std"] };
    // corpus: every prefix of the ramp bases (every tail length of every scanner) + G1 cases
    let mut cases: Vec<CaseRec> = vec![];
    for (base, entry, cfg) in RAMP_BASES.iter() {
        for k in 0..=base.len() {
            cases.push(CaseRec::new("memcheck", *entry, *cfg, 8, base[..k].to_vec()));
        }
    }
    for len in 0..=140usize {
        let mut f = Vec::new();
        gen::fill(&mut f, len, 0, len as u16);
        cases.push(CaseRec::new("memcheck", Entry::ReqParse, 0, 4, [&b"GET /"[..], &f, b" HTTP/1.1\r\n\r\n"].concat()));
        cases.push(CaseRec::new("memcheck", Entry::ReqParse, 0, 4, [&b"GET /"[..], &f].concat()));
        cases.push(CaseRec::new("memcheck", Entry::Headers, 0, 4, [&b"N: "[..], &f, b"\r\n\r\n"].concat()));
        cases.push(CaseRec::new("memcheck", Entry::Headers, 0, 4, [&b"N: "[..], &f].concat()));
        cases.push(CaseRec::new("memcheck", Entry::Headers, 0, 4, f.clone()));
        cases.push(CaseRec::new("memcheck", Entry::RespParse, 0, 4, [&b"HTTP/1.1 200 "[..], &f].concat()));
    }
    {
        use proptest::strategy::{Strategy, ValueTree};
        use proptest::test_runner::{Config, RngSeed, TestRunner};
        static K: [Kind; 4] = ALL_KINDS;
        let g = GenSpec { kinds: &K, profile: Profile::DEFAULT, generous_cap: false, cfg_mask: 0x7f, cfg_entry_only: false };
        let mut runner = TestRunner::new(Config { rng_seed: RngSeed::Fixed(r.seed ^ 0xC01), failure_persistence: None, ..Config::default() });
        let strat = proptest::collection::vec(proptest::num::u8::ANY, 0..=170usize);
        for _ in 0..r.amount(6000, 60000) {
            let bytes = strat.new_tree(&mut runner).unwrap().current();
            let mut u = Choice::new(&bytes);
            cases.push(g1_case(&mut u, "memcheck", &g));
        }
    }
    let results = std::sync::Mutex::new(vec![]);
    std::thread::scope(|s| {
        for name in names {
            let results = &results;
            let cases = &cases;
            s.spawn(move || {
                let v = super::p_variants::VARIANTS.iter().find(|v| v.name == *name).unwrap();
                let bin = match super::p_variants::build_variant(v) {
                    Ok(b) => b,
                    Err((_, m)) => {
                        results.lock().unwrap().push((name.to_string(), Err(format!("build failed: {}", m)), None));
                        return;
                    }
                };
                // native pre-pass: a build variant whose parse does not return (an endless
                // scanner loop in a compile-time backend, say) is found here, bisected to
                // one case, and reported as non-termination
                if let Ok(false) = native_returns(&bin, cases, name, 30) {
                    let (mut lo, mut hi) = (0usize, cases.len());
                    while hi - lo > 1 {
                        let mid = (lo + hi) / 2;
                        if let Ok(false) = native_returns(&bin, &cases[lo..mid], &format!("{}-bisect", name), 10) {
                            hi = mid;
                        } else {
                            lo = mid;
                        }
                    }
                    // confirm the single case with a generous budget
                    if let Ok(false) = native_returns(&bin, &cases[lo..lo + 1], &format!("{}-confirm", name), 30) {
                        results.lock().unwrap().push((name.to_string(), Ok((Some(-77), String::new())), Some(lo)));
                    } else {
                        results.lock().unwrap().push((name.to_string(), Err("the variant did not return on the corpus within 30 s, but no single case reproduces it".into()), None));
                    }
                    return;
                }
                let res = memcheck_run(&bin, cases, name);
                let mut culprit = None;
                if memcheck_bad(&res) {
                    // bisect the corpus down to one case
                    let (mut lo, mut hi) = (0usize, cases.len());
                    while hi - lo > 1 {
                        let mid = (lo + hi) / 2;
                        if memcheck_bad(&memcheck_run(&bin, &cases[lo..mid], &format!("{}-bisect", name))) {
                            hi = mid;
                        } else {
                            lo = mid;
                        }
                    }
                    culprit = Some(lo);
                }
                results.lock().unwrap().push((name.to_string(), res, culprit));
            });
        }
    });
    for (name, res, culprit) in results.into_inner().unwrap() {
        match res {
            Ok((Some(0), _)) => {
                r.stats.hist.lock().unwrap().insert(format!("memcheck clean: vdigest variant {}", name), cases.len() as u64);
            }
            Ok((Some(-77), _)) => {
                let mut rec = cases[culprit.unwrap_or(0)].clone();
                rec.sub = std::borrow::Cow::Borrowed("memcheck-hang");
                rec.bufs = vec![name.as_bytes().to_vec()];
                r.report(Violation::new(
                    "C01/non-termination",
                    format!("production vdigest build `{}`: the parse of this case did not return within 30 s in a fresh process (it normally takes microseconds)", name),
                    &rec,
                ));
            }
            Ok((code, err)) => {
                if memcheck_bad(&Ok((code, err.clone()))) {
                    let mut rec = cases[culprit.unwrap_or(0)].clone();
                    rec.bufs = vec![name.as_bytes().to_vec()];
                    let mut l = Local::default();
                    match check_memcheck_case(r, &mut l, &rec) {
                        Err(v) => {
                            r.report(v);
                        }
                        Ok(()) => r.inconclusive.lock().unwrap().push(format!("memcheck reported errors for variant {} on the corpus but not on the bisected case", name)),
                    }
                } else {
                    r.inconclusive.lock().unwrap().push(format!("memcheck run of variant {} ended with {:?}: {}", name, code, err.lines().last().unwrap_or("")));
                }
            }
            Err(e) => r.inconclusive.lock().unwrap().push(format!("memcheck variant {}: {}", name, e)),
        }
    }
    r.stats.evals.fetch_add((cases.len() * names.len()) as u64, std::sync::atomic::Ordering::Relaxed);
    r.phase_done(&format!("valgrind memcheck: {} cases (every prefix of 10 bases, fields of every length 0..=140 cut and uncut, G1) × vdigest variants {:?}, each buffer and header array an exact-size heap allocation", cases.len(), names), (cases.len() * names.len()) as u64, false, t0);
}

pub fn run(r: &Runner) {
    if !cfg!(debug_assertions) {
        memcheck_phase(r);
        if r.stopped() {
            return;
        }
    }
    // totality on *reused* values: histories of calls on one Request/Response (incl. a
    // shorter view of memory that an earlier call saw in full) must not panic either; the
    // debug-assertion build turns an unchecked cursor move into a panic
    {
        let prof = Profile { truncate: 30, mutate: 40, ..Profile::DEFAULT };
        r.par_random(
            "histories of 1..4 calls on one reused Request/Response (own buffers, slices and shrinking views of the probe's allocation), then a probe: no call may panic",
            r.amount(600_000, 8_000_000),
            420,
            |u: &mut Choice| {
                let mut rec = super::p_hist::gen_history(u, &prof);
                rec.sub = std::borrow::Cow::Borrowed("total-history");
                rec
            },
            &|ctx, l, rec| check(r, ctx, l, rec),
        );
        if r.stopped() {
            return;
        }
    }
    static K: [Kind; 4] = ALL_KINDS;
    let backends = usable_backends();
    for &be in &backends {
        set_backend(be);
        // G1 with mutations, occasionally big
        let g = GenSpec { kinds: &K, profile: Profile { big: true, ..Profile::DEFAULT }, generous_cap: false, cfg_mask: 0x7f, cfg_entry_only: false };
        r.par_random(
            &format!("G1 grammar-derived messages with mutations, backend {}", backend_name(be)),
            r.amount(2_000_000, 30_000_000),
            170,
            |u: &mut Choice| {
                let mut rec = g1_case(u, "total", &g);
                decorate(u, &mut rec, be);
                rec
            },
            &|ctx, l, rec| check(r, ctx, l, rec),
        );
        // G2 class strings and raw bytes
        r.par_random(
            &format!("class-alphabet strings and raw uniform bytes, backend {}", backend_name(be)),
            r.amount(1_500_000, 20_000_000),
            120,
            |u: &mut Choice| {
                let entry = Entry::from_u8(u.below(10) as u8);
                let mut cfg = pick_cfg(u);
                if !entry.takes_cfg() {
                    cfg = 0;
                }
                let cap = pick_cap(u, 2);
                let place = pick_place(u);
                let mut buf = Vec::new();
                match u.below(4) {
                    0 => {
                        if entry.kind() != Kind::Headers && u.chance(128) {
                            buf.extend_from_slice(if entry.kind() == Kind::Request { REQ_LINE } else { RESP_LINE });
                        }
                        gen::class_string(u, &HDR_ALPHABET, 40, &mut buf)
                    }
                    1 => gen::class_string(u, &START_ALPHABET, 12, &mut buf),
                    2 => gen::class_string(u, &CHUNK_ALPHABET, 24, &mut buf),
                    _ => {
                        let n = u.range(0, 100);
                        for _ in 0..n {
                            buf.push(u.byte());
                        }
                    }
                }
                let mut rec = CaseRec::new("total", entry, cfg, cap, buf);
                rec.place = place;
                decorate(u, &mut rec, be);
                rec
            },
            &|ctx, l, rec| check(r, ctx, l, rec),
        );
        // length ramp: every prefix length 0..=len of base messages × 3 placements ×
        // 32 interior offsets (so every alignment residue and every scanner tail length
        // occurs at the guard page)
        let mut offs = vec![0u64];
        for (b, _, _) in RAMP_BASES.iter() {
            offs.push(offs.last().unwrap() + (b.len() as u64 + 1) * 4);
        }
        r.par_enum(&format!("length ramp: every prefix of 10 base messages × {{end, start, interior a, interior b}} placement × capacity from index, backend {}", backend_name(be)), *offs.last().unwrap(), |ctx, l, idx| {
            let bi = offs.partition_point(|&o| o <= idx) - 1;
            let (base, entry, cfg) = RAMP_BASES[bi];
            let x = idx - offs[bi];
            let k = (x / 4) as usize;
            let place = match x % 4 {
                0 => Placement::End,
                1 => Placement::Start,
                2 => Placement::Interior((mix(idx) % 64) as u8),
                _ => Placement::Interior((k % 32) as u8),
            };
            let mut rec = CaseRec::new("total", entry, cfg, [0usize, 1, 4, 16, 64][(mix(idx ^ 5) % 5) as usize], base[..k].to_vec());
            rec.place = place;
            rec.backend = be;
            rec.aux = vec![(mix(idx ^ 9) % 4 != 0) as u64, (mix(idx ^ 11) % 2) as u64];
            check(r, ctx, l, &rec)
        });
        // byte sweeps over the bases at a few positions spread across lanes
        r.par_enum(&format!("mutated bases: interesting byte at every position of 10 bases × 24 bytes, end-abutting, backend {}", backend_name(be)), offs.last().unwrap() / 4 * 24, |ctx, l, idx| {
            let val = gen::INTERESTING[(idx % 24) as usize];
            let y = idx / 24;
            let o4: Vec<u64> = offs.iter().map(|o| o / 4).collect();
            let bi = o4.partition_point(|&o| o <= y) - 1;
            let (base, entry, cfg) = RAMP_BASES[bi];
            let pos = (y - o4[bi]) as usize;
            let mut buf = base.to_vec();
            if pos < buf.len() {
                buf[pos] = val;
            } else {
                buf.push(val);
            }
            let mut rec = CaseRec::new("total", entry, cfg, 16, buf);
            rec.backend = be;
            check(r, ctx, l, &rec)
        });
        // G5 scale families
        let sizes: &[usize] = if r.quick() { &[1 << 10, 1 << 13, 1 << 16, 1 << 18] } else { &[1 << 10, 1 << 12, 1 << 14, 1 << 16, 1 << 18, 1 << 20] };
        let total = gen::N_FAMILIES as u64 * sizes.len() as u64 * 4 * 2;
        r.par_enum(&format!("scale families: {} adversarial families × sizes up to {} KiB × {{whole, truncated, late error, +jitter}} × {{small capacity, capacity 400000}}, backend {}", gen::N_FAMILIES, sizes.last().unwrap() >> 10, backend_name(be)), total, |ctx, l, idx| {
            let huge_cap = idx % 2 == 1;
            let idx = idx / 2;
            let var = idx % 4;
            let x = idx / 4;
            let f = (x % gen::N_FAMILIES as u64) as usize;
            let size = sizes[(x / gen::N_FAMILIES as u64) as usize];
            let mut rng = Lcg(mix(idx ^ r.seed));
            let (entry, cfg, mut buf) = gen::family(f, size + if var == 3 { rng.below(64) } else { 0 });
            match var {
                1 => {
                    let k = rng.below(buf.len() + 1);
                    buf.truncate(k);
                }
                2 => {
                    let k = buf.len() - 1 - rng.below(buf.len().min(200));
                    buf[k] = [0u8, 0x7f, b'\r', 0x01][rng.below(4)];
                }
                _ => {}
            }
            // capacity: small (TooManyHeaders paths) or larger than any header count reachable here
            let cap = if huge_cap { 400_000 } else { [0usize, 4, 64, 1000][rng.below(4)] };
            let mut rec = CaseRec::new("total", entry, cfg, cap, buf);
            rec.place = if rng.below(3) == 0 { Placement::Start } else { Placement::End };
            rec.backend = be;
            check(r, ctx, l, &rec)
        });
    }
    set_backend(0);
}

trait SpawnDwp {
    fn spawn_dwp(&mut self) -> std::io::Result<std::process::Child>;
}
impl SpawnDwp for std::process::Command {
    fn spawn_dwp(&mut self) -> std::io::Result<std::process::Child> {
        crate::engine::die_with_parent(self).spawn()
    }
}
