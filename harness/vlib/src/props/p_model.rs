//! Model-based properties: C06 (request line), C07 (status line), C08 (header block,
//! default config), C09 (chunk size), C10 (error classification), C14 (leniency
//! options). Oracle: the reference model M (`crate::model`).

use super::common::*;
use crate::choice::Choice;
use crate::cmp::{W_CHUNK, W_ERRKIND, W_HEADERS, W_START, W_VERDICT};
use crate::engine::{mix, CaseRec, Local, Runner, Violation};
use crate::gen::{self, Profile, CHUNK_ALPHABET, HDR_ALPHABET, HDR_CONTEXTS, START_ALPHABET};
use crate::model::{self, MOut, Stage, Verdict};
use crate::real::*;

#[derive(Clone, Copy, PartialEq, Eq)]
pub enum Which {
    C06,
    C07,
    C08,
    C09,
    C10,
    C14,
}

impl Which {
    fn id(self) -> &'static str {
        match self {
            Which::C06 => "C06",
            Which::C07 => "C07",
            Which::C08 => "C08",
            Which::C09 => "C09",
            Which::C10 => "C10",
            Which::C14 => "C14",
        }
    }
    fn what(self) -> u32 {
        match self {
            Which::C06 | Which::C07 => W_VERDICT | W_START | W_HEADERS,
            Which::C08 | Which::C14 => W_VERDICT | W_HEADERS,
            Which::C09 => W_VERDICT | W_CHUNK,
            Which::C10 => W_ERRKIND,
        }
    }
}

fn nontrivial(w: Which, rec: &CaseRec, obs: &Obs, m: &MOut) -> bool {
    match w {
        Which::C06 => m.stage >= Stage::Target,
        Which::C07 => m.stage >= Stage::Code,
        Which::C08 => {
            m.header_lines_done >= 1
                || match (&m.verdict, m.headers_start) {
                    (Verdict::Err { at, .. }, Some(hs)) => {
                        rec.buf[hs..*at.min(&rec.buf.len())].contains(&b':')
                    }
                    _ => false,
                }
        }
        Which::C09 => {
            let digits = rec.buf.iter().take_while(|b| b.is_ascii_hexdigit()).count();
            (digits >= 1 && rec.buf.len() >= 3) || digits >= 15
        }
        Which::C10 => {
            // rejected after the first token
            matches!(obs.st, St::Err(_))
                && match &m.verdict {
                    Verdict::Err { at, .. } | Verdict::PartialOrErr { at, .. } => *at >= 1,
                    _ => false,
                }
        }
        Which::C14 => m.lenient != 0 && (m.header_lines_done >= 1 || m.dropped_lines >= 1),
    }
}

/// The check itself: one case record → verdict.
pub fn check(w: Which, r: &Runner, ctx: &mut Ctx, l: &mut Local, rec: &CaseRec) -> Result<(), Violation> {
    if rec.sub == "c14-kept-identical" {
        return check_kept_identical(r, ctx, l, rec);
    }
    if rec.sub == "c10-reuse" {
        return check_c10_reuse(r, l, rec);
    }
    let obs = run_rec(ctx, rec);
    if let St::Panic(msg) = &obs.st {
        return Err(Violation::new(
            format!("{}/panic", w.id()),
            format!("parser panicked: {}", msg),
            rec,
        ));
    }
    let m = run_model(rec);
    if w == Which::C10 {
        // only rejected buffers are in C10's domain; class disagreements belong to C06–C08/C14
        let both_err = matches!(obs.st, St::Err(_))
            && matches!(m.verdict, Verdict::Err { .. } | Verdict::PartialOrErr { .. });
        if !both_err {
            if l.counting {
                l.bump(if matches!(obs.st, St::Err(_)) { "skipped:model-not-err" } else { "skipped:not-rejected" });
            }
            // TooManyHeaders "exactly when": the model says TooManyHeaders but the real parser
            // does not reject, or vice versa, is C10's business too.
            let m_tmh = matches!(&m.verdict, Verdict::Err { kinds, .. } if kinds.has(ErrKind::TooManyHeaders));
            let r_tmh = matches!(obs.st, St::Err(ErrKind::TooManyHeaders));
            if m_tmh != r_tmh {
                return Err(Violation::new(
                    format!("C10/too-many-headers/real-{}/model-{}", obs.st.class(), m.verdict.class()),
                    format!("real {} but model {} [{} cfg={:#04x} cap={}]", obs.st.show(), m.verdict.show(), rec.entry.name(), rec.cfg, rec.cap),
                    rec,
                ));
            }
            r.account(l, rec, false, "");
            return Ok(());
        }
    }
    if let Err(mm) = crate::cmp::compare(&obs, &m, w.what()) {
        return Err(Violation::new(
            format!("{}/{}", w.id(), mm.sig),
            format!("{} [{} cfg={:#04x} cap={}]", mm.detail, rec.entry.name(), rec.cfg, rec.cap),
            rec,
        ));
    }
    if l.counting {
        l.bump(status_hist_key(&obs.st));
        if w == Which::C10 {
            if let (St::Err(k), Verdict::Err { elem, .. } | Verdict::PartialOrErr { elem, .. }) = (&obs.st, &m.verdict) {
                l.bump(errelem_key(*k, elem));
            }
        }
        if w == Which::C14 {
            if m.lenient & model::L_SPACE_AFTER_NAME != 0 { l.bump("lenient:space-after-name"); }
            if m.lenient & model::L_FOLD != 0 { l.bump("lenient:fold"); }
            if m.lenient & model::L_SPACE_BEFORE_FIRST != 0 { l.bump("lenient:space-before-first"); }
            if m.lenient & model::L_IGNORED_LINE != 0 { l.bump("lenient:ignored-line"); }
            if m.lenient.count_ones() >= 2 { l.bump("lenient:two-or-more-kinds"); }
        }
    }
    let nt = nontrivial(w, rec, &obs, &m);
    r.account(l, rec, nt, &format!("real={} model={}", obs.st.show(), m.verdict.show()));
    Ok(())
}

fn errelem_key(k: ErrKind, elem: &'static str) -> &'static str {
    // small interned table: kind x element
    use std::collections::HashMap;
    use std::sync::{Mutex, OnceLock};
    static T: OnceLock<Mutex<HashMap<(ErrKind, &'static str), &'static str>>> = OnceLock::new();
    let mut t = T.get_or_init(|| Mutex::new(HashMap::new())).lock().unwrap();
    t.entry((k, elem)).or_insert_with(|| Box::leak(format!("err:{}@{}", k.name(), elem).into_boxed_str()))
}

// ---------------------------------------------------------------------------------
// C14's last sentence, metamorphic: kept headers are reported exactly as without the
// options when the block is valid there.
// ---------------------------------------------------------------------------------
fn check_kept_identical(r: &Runner, ctx: &mut Ctx, l: &mut Local, rec: &CaseRec) -> Result<(), Violation> {
    // rec.cfg = lenient config; partner = same kind's header options off
    let kind = rec.kind();
    let hdr_bits = C_SPACES_AFTER_NAME | C_MULTILINE | C_SPACE_BEFORE_FIRST | C_IGNORE_RESP | C_IGNORE_REQ;
    let mut strict = rec.clone();
    strict.cfg = rec.cfg & !hdr_bits;
    let o_strict = run_rec(ctx, &strict);
    let o_len = run_rec(ctx, rec);
    let mut nt = false;
    if let St::Complete(n) = o_strict.st {
        nt = (rec.cfg & hdr_bits) != 0 && !o_strict.headers.is_empty();
        let same = o_len.st == St::Complete(n)
            && o_len.headers_b == o_strict.headers_b
            && o_len
                .headers
                .iter()
                .zip(o_strict.headers.iter())
                .all(|(a, b)| (a.0.ptr - o_len.buf_ptr, a.0.len) == (b.0.ptr - o_strict.buf_ptr, b.0.len));
        if !same {
            return Err(Violation::new(
                "C14/kept-headers-differ",
                format!(
                    "{:?}: strict config gives {} with {} headers, lenient cfg={:#04x} gives {} with {} headers / different contents",
                    kind, o_strict.st.show(), o_strict.headers.len(), rec.cfg, o_len.st.show(), o_len.headers.len()
                ),
                rec,
            ));
        }
    }
    r.account(l, rec, nt, "kept-identical");
    Ok(())
}

// ---------------------------------------------------------------------------------
// phases
// ---------------------------------------------------------------------------------

/// cfg for an enumerated case: `fixed` bits as given, the bits in `free_mask` chosen
/// pseudo-randomly from the index (they must be inert for what is compared).
fn cfg_with_free(fixed: u8, free_mask: u8, idx: u64) -> u8 {
    fixed | ((mix(idx ^ 0xabcdef) as u8) & free_mask)
}

const START_SUFFIXES_REQ: [&[u8]; 3] = [b"", b"\r\n", b"H: v\r\n\r\n"];

fn phase_start_tokens(w: Which, r: &Runner, maxlen: u32) {
    let kind = if w == Which::C07 { Kind::Response } else { Kind::Request };
    let per = gen::count_upto(17, maxlen);
    let total = per * 2 * 3;
    let multibit = if kind == Kind::Request { C_MULTISPACE_REQ } else { C_MULTISPACE_RESP };
    let entry = Entry::cfg_entry(kind);
    r.par_enum(&format!("start-line tokens ≤{} × multi-space × 3 suffixes", maxlen), total, |ctx, l, idx| {
        let s = idx % per;
        let v = idx / per;
        let multi = v % 2 == 1;
        let suffix = START_SUFFIXES_REQ[(v / 2) as usize];
        let mut buf = Vec::with_capacity(48);
        gen::nth_string(&START_ALPHABET, s, &mut buf);
        buf.extend_from_slice(suffix);
        let cfg = cfg_with_free(if multi { multibit } else { 0 }, 0x7f & !(C_MULTISPACE_REQ | C_MULTISPACE_RESP), idx);
        let rec = CaseRec::new("model", entry, cfg, 8, buf);
        check(w, r, ctx, l, &rec)
    });
}

pub const REQ_BASES: [&[u8]; 14] = [
    b"GET / HTTP/1.1\r\n\r\n",
    b"POST /x HTTP/1.0\n\n",
    b"PUT /a/b?c=d HTTP/1.1\r\nH: v\r\n\r\n",
    b"\r\n\nGET /p HTTP/1.1\r\n\r\n",
    b"GET  /two  HTTP/1.1\r\n\r\n",
    b"OPTIONS * HTTP/1.1\n\n",
    b"GET /caf\xc3\xa9 HTTP/1.1\r\n\r\n",
    b"POSTX /y HTTP/1.1\r\n\r\n",
    b"POS / HTTP/1.1\r\n\r\n",
    b"G / HTTP/1.0\r\n\r\n",
    b"GET /0123456789abcdef0123456789abcdef0123456789 HTTP/1.1\r\n\r\n",
    b"!#$%&'*+-.^_`|~ / HTTP/1.1\r\n\r\n",
    b"GET / HTTP/1.1",
    b"GET /\xe2\x82\xac HTTP/1.1\r\nA: b\r\n\r\n",
];

pub const RESP_BASES: [&[u8]; 14] = [
    b"HTTP/1.1 200 OK\r\n\r\n",
    b"HTTP/1.0 404 Not Found\n\n",
    b"HTTP/1.1 200\r\n\r\n",
    b"HTTP/1.1 200 \r\n\r\n",
    b"HTTP/1.1 200\n\n",
    b"\r\n\nHTTP/1.1 301 Moved\r\nH: v\r\n\r\n",
    b"HTTP/1.1  200  OK\r\n\r\n",
    b"HTTP/1.1 200 X\xffZ\r\n\r\n",
    b"HTTP/1.1 200 a\tb c\r\n\r\n",
    b"HTTP/1.1 999 Internal Server Error And A Long Reason Phrase Here\r\n\r\n",
    b"HTTP/1.1 000 \r\n\r\n",
    b"HTTP/1.1 200 OK",
    b"HTTP/1.1 200   \r\n\r\n",
    b"HTTP/1.1 204 No Content\r\nA: b\r\n\r\n",
];

/// G3: all 256 byte values at every position of each base, both multi-space settings;
/// plus all prefixes of each base.
fn phase_start_sweep(w: Which, r: &Runner) {
    let (kind, bases): (Kind, &[&[u8]]) =
        if w == Which::C07 { (Kind::Response, &RESP_BASES) } else { (Kind::Request, &REQ_BASES) };
    let multibit = if kind == Kind::Request { C_MULTISPACE_REQ } else { C_MULTISPACE_RESP };
    let entry = Entry::cfg_entry(kind);
    // index space: base × position × 256 × 2, flattened via prefix sums
    let mut offs = vec![0u64];
    for b in bases {
        offs.push(offs.last().unwrap() + (b.len() as u64) * 256 * 2 * 2);
    }
    let total = *offs.last().unwrap();
    r.par_enum("byte sweep: 256 values × every position × bases × multi-space × {overwrite,insert}", total, |ctx, l, idx| {
        let bi = offs.partition_point(|&o| o <= idx) - 1;
        let base = bases[bi];
        let mut x = idx - offs[bi];
        let multi = x % 2 == 1;
        x /= 2;
        let insert = x % 2 == 1;
        x /= 2;
        let val = (x % 256) as u8;
        let pos = (x / 256) as usize;
        let mut buf = base.to_vec();
        if insert {
            buf.insert(pos, val);
        } else {
            buf[pos] = val;
        }
        let cfg = cfg_with_free(if multi { multibit } else { 0 }, 0x7f & !(C_MULTISPACE_REQ | C_MULTISPACE_RESP), idx);
        let rec = CaseRec::new("model", entry, cfg, 8, buf);
        check(w, r, ctx, l, &rec)
    });
    let mut poffs = vec![0u64];
    for b in bases {
        poffs.push(poffs.last().unwrap() + (b.len() as u64 + 1) * 2);
    }
    r.par_enum("all prefixes of each base", *poffs.last().unwrap(), |ctx, l, idx| {
        let bi = poffs.partition_point(|&o| o <= idx) - 1;
        let x = idx - poffs[bi];
        let multi = x % 2 == 1;
        let k = (x / 2) as usize;
        let cfg = if multi { multibit } else { 0 };
        let rec = CaseRec::new("model", entry, cfg, 8, bases[bi][..k].to_vec());
        check(w, r, ctx, l, &rec)
    });
}

/// C06 (iii): targets of every length 1..=maxlen × fillers × a bad byte at every position.
fn phase_targets(r: &Runner, maxlen: usize) {
    const BAD: [u8; 14] = [0x00, 0x01, b'\t', b'\n', b'\r', b' ', 0x1f, 0x20, 0x7f, 0x80, 0xc3, 0xff, 0xe2, b'a'];
    let fillers = 5u64;
    // (len, pos) pairs with pos in 0..=len (pos == len means "no bad byte")
    let mut offs = vec![0u64];
    for len in 1..=maxlen {
        offs.push(offs.last().unwrap() + (len as u64 + 1));
    }
    let pairs = *offs.last().unwrap();
    let total = pairs * fillers * BAD.len() as u64 * 2;
    r.par_enum(&format!("targets of every length 1..={} × 5 fillers × 14 bad bytes × every position × multi-space", maxlen), total, |ctx, l, idx| {
        let mut x = idx;
        let multi = x % 2 == 1;
        x /= 2;
        let bad = BAD[(x % BAD.len() as u64) as usize];
        x /= BAD.len() as u64;
        let filler = (x % fillers) as usize;
        x /= fillers;
        let li = offs.partition_point(|&o| o <= x) - 1;
        let len = li + 1;
        let pos = (x - offs[li]) as usize;
        let mut buf = b"GET ".to_vec();
        let style = [0usize, 5, 3, 1, 4][filler];
        let mut t = Vec::with_capacity(len);
        gen::fill(&mut t, len, style, (len * 31 + pos) as u16);
        if style == 1 {
            for b in t.iter_mut() {
                if *b == b' ' {
                    *b = b'!';
                }
            }
        }
        if pos < len {
            t[pos] = bad;
        }
        buf.extend_from_slice(&t);
        buf.extend_from_slice(b" HTTP/1.1\r\n\r\n");
        let cfg = if multi { C_MULTISPACE_REQ } else { 0 };
        let rec = CaseRec::new("model", Entry::ReqCfg, cfg, 4, buf);
        check(Which::C06, r, ctx, l, &rec)
    });
}

/// C07 (iii): all 1000 codes × {no reason, empty reason, reason}; reasons of every length
/// 0..=70 with each class representative at each position.
fn phase_codes_reasons(r: &Runner) {
    r.par_enum("all 1000 codes × 3 reason shapes × 2 versions × multi-space", 1000 * 3 * 2 * 2, |ctx, l, idx| {
        let mut x = idx;
        let multi = x % 2 == 1;
        x /= 2;
        let ver = x % 2;
        x /= 2;
        let shape = x % 3;
        x /= 3;
        let code = x;
        let mut buf = format!("HTTP/1.{} {:03}", ver, code).into_bytes();
        buf.extend_from_slice([&b"\r\n\r\n"[..], b" \r\n\r\n", b" Reason Phrase\r\n\r\n"][shape as usize]);
        let rec = CaseRec::new("model", Entry::RespCfg, if multi { C_MULTISPACE_RESP } else { 0 }, 4, buf);
        check(Which::C07, r, ctx, l, &rec)
    });
    const REPS: [u8; 16] = [0x00, 0x01, b'\t', b'\n', b'\r', b' ', 0x1f, b'!', b'~', 0x7f, 0x80, 0xff, b'a', 0x0b, 0x0c, 0xc3];
    let mut offs = vec![0u64];
    for len in 0..=70usize {
        offs.push(offs.last().unwrap() + (len as u64 + 1));
    }
    let total = *offs.last().unwrap() * REPS.len() as u64 * 2 * 2;
    r.par_enum("reasons of every length 0..=70 × 16 class representatives at every position × {CRLF,LF} × multi-space", total, |ctx, l, idx| {
        let mut x = idx;
        let multi = x % 2 == 1;
        x /= 2;
        let lf = x % 2 == 1;
        x /= 2;
        let rep = REPS[(x % 16) as usize];
        x /= 16;
        let li = offs.partition_point(|&o| o <= x) - 1;
        let len = li;
        let pos = (x - offs[li]) as usize;
        let mut buf = b"HTTP/1.1 200 ".to_vec();
        let mut t = Vec::new();
        gen::fill(&mut t, len, 0, len as u16);
        if pos < len {
            t[pos] = rep;
        }
        buf.extend_from_slice(&t);
        buf.extend_from_slice(if lf { b"\n\n" } else { b"\r\n\r\n" });
        let rec = CaseRec::new("model", Entry::RespCfg, if multi { C_MULTISPACE_RESP } else { 0 }, 4, buf);
        check(Which::C07, r, ctx, l, &rec)
    });
}

fn phase_g1(w: Which, r: &Runner, cases: u64, kinds: &'static [Kind], profile: Profile, cfg_mask: u8, generous: bool) {
    let g = GenSpec { kinds, profile, generous_cap: generous, cfg_mask, cfg_entry_only: false };
    r.par_random(
        "G1 grammar-derived messages with mutations",
        cases,
        160,
        |u: &mut Choice| g1_case(u, "model", &g),
        &|ctx, l, rec| check(w, r, ctx, l, rec),
    );
}

/// Header-block G2: bounded-exhaustive strings over the 11-symbol alphabet after each
/// resume context, for each (kind, header-option combination).
/// `combos`: list of (entry, cfg) pairs.
fn phase_hdr_exhaustive(w: Which, r: &Runner, maxlen: u32, combos: &[(Entry, u8)], name: &str) {
    let per = gen::count_upto(11, maxlen);
    let nctx = HDR_CONTEXTS.len() as u64;
    let total = per * nctx * combos.len() as u64;
    r.par_enum(name, total, |ctx, l, idx| {
        let s = idx % per;
        let x = idx / per;
        let c = (x % nctx) as usize;
        let (entry, cfg) = combos[(x / nctx) as usize];
        let mut buf = Vec::with_capacity(48);
        match entry.kind() {
            Kind::Request => buf.extend_from_slice(REQ_LINE),
            Kind::Response => buf.extend_from_slice(RESP_LINE),
            _ => {}
        }
        buf.extend_from_slice(HDR_CONTEXTS[c]);
        gen::nth_string(&HDR_ALPHABET, s, &mut buf);
        let rec = CaseRec::new("model", entry, cfg, 16, buf);
        check(w, r, ctx, l, &rec)
    });
}

pub const HDR_BASES: [&[u8]; 16] = [
    b"Host: example.com\r\n\r\n",
    b"A: b\r\nC: d\r\n\r\n",
    b"A:b\nC:d\n\n",
    b"Name:  \t value \t \r\n\r\n",
    b"Empty:\r\nE2: \r\n\r\n",
    b"Folded: one\r\n two\r\n\tthree\r\n\r\n",
    b"F:\r\n v\r\n\r\n",
    b"F: v\r\n \r\n\t\r\nG: h\r\n\r\n",
    b" Lead: x\r\nB: y\r\n\r\n",
    b"\t \tLead2: x\r\n\r\n",
    b"Spaced : v\r\nTab\t:\tw\r\n\r\n",
    b"no colon here\r\nA: b\r\n\r\n",
    b"A: b\r\nbad name: v\r\n c\r\nD: e\r\n\r\n",
    b"X: caf\xc3\xa9 \xff\r\n\r\n",
    b"A: 0123456789abcdef0123456789abcdef0123456789abcdef\r\nLonger-Header-Name-Here-0123456789: v\r\n\r\n",
    b": novalue\r\nA: b\r\n\r\n",
];

/// Header-block G3: all 256 values at every position of each base × option combos.
fn phase_hdr_sweep(w: Which, r: &Runner, combos: &[(Entry, u8)]) {
    let mut offs = vec![0u64];
    for b in HDR_BASES.iter() {
        offs.push(offs.last().unwrap() + (b.len() as u64) * 256 * 2);
    }
    let per = *offs.last().unwrap();
    let total = per * combos.len() as u64;
    r.par_enum("header byte sweep: 256 values × every position × 16 bases × {overwrite,insert} × option combos", total, |ctx, l, idx| {
        let (entry, cfg) = combos[(idx / per) as usize];
        let y = idx % per;
        let bi = offs.partition_point(|&o| o <= y) - 1;
        let mut x = y - offs[bi];
        let insert = x % 2 == 1;
        x /= 2;
        let val = (x % 256) as u8;
        let pos = (x / 256) as usize;
        let mut block = HDR_BASES[bi].to_vec();
        if insert {
            block.insert(pos, val);
        } else {
            block[pos] = val;
        }
        let rec = CaseRec::new("model", entry, cfg, 16, with_start_line(entry.kind(), &block));
        check(w, r, ctx, l, &rec)
    });
}

/// C08 (ii)/(iii): lane phases — name and value of every length 0..=maxlen, with each of
/// 256 byte values at a syntactic position after `phase` in-class bytes.
fn phase_hdr_lanes(w: Which, r: &Runner, maxphase: usize, combos: &[(Entry, u8)]) {
    // positions: 0 = inside name after `phase` name bytes; 1 = inside value after `phase`
    // value bytes; 2 = first value byte after `phase` bytes of OWS
    let per = (maxphase as u64 + 1) * 256 * 3 * 3;
    let total = per * combos.len() as u64;
    r.par_enum(&format!("lane phases 0..={} × 256 values × 3 syntactic positions × 3 value fillers × combos", maxphase), total, |ctx, l, idx| {
        let (entry, cfg) = combos[(idx / per) as usize];
        let mut x = idx % per;
        let val = (x % 256) as u8;
        x /= 256;
        let posk = x % 3;
        x /= 3;
        let fillk = x % 3;
        x /= 3;
        let phase = x as usize;
        let mut block = Vec::with_capacity(phase + 40);
        let vstyle = [0usize, 2, 4][fillk as usize];
        match posk {
            0 => {
                gen::fill(&mut block, phase, 0, 7);
                block.push(val);
                block.extend_from_slice(b"xyz: value\r\n\r\n");
            }
            1 => {
                block.extend_from_slice(b"N: ");
                let mut v = Vec::new();
                gen::fill(&mut v, phase + 1, vstyle, 9);
                if vstyle == 2 && !v.is_empty() {
                    // keep the first byte non-whitespace so that phase counts from the value start
                    v[0] = b'v';
                }
                block.extend_from_slice(&v[..phase]);
                block.push(val);
                block.extend_from_slice(b"tail\r\nB: c\r\n\r\n");
            }
            _ => {
                block.extend_from_slice(b"N:");
                for i in 0..phase {
                    block.push(if (i + fillk as usize) % 3 == 0 { b'\t' } else { b' ' });
                }
                block.push(val);
                block.extend_from_slice(b"v\r\n\r\n");
            }
        }
        let rec = CaseRec::new("model", entry, cfg, 16, with_start_line(entry.kind(), &block));
        check(w, r, ctx, l, &rec)
    });
}

fn default_combos() -> Vec<(Entry, u8)> {
    vec![(Entry::Headers, 0), (Entry::ReqParse, 0), (Entry::RespParse, 0)]
}

/// 16 header-option combinations × {request, response}. For requests the two
/// response-only options are crossed in too: they must be inert there.
fn c14_combos() -> Vec<(Entry, u8)> {
    let mut v = vec![];
    for c in 0..16u8 {
        let a = c & 1 != 0;
        let f = c & 2 != 0;
        let s = c & 4 != 0;
        let i = c & 8 != 0;
        let resp = (a as u8 * C_SPACES_AFTER_NAME)
            | (f as u8 * C_MULTILINE)
            | (s as u8 * C_SPACE_BEFORE_FIRST)
            | (i as u8 * C_IGNORE_RESP);
        v.push((Entry::RespCfg, resp));
        let req = (a as u8 * C_SPACES_AFTER_NAME)
            | (f as u8 * C_MULTILINE)
            | (s as u8 * C_SPACE_BEFORE_FIRST)
            | (i as u8 * C_IGNORE_REQ);
        v.push((Entry::ReqCfg, req));
    }
    v
}

/// C10 on a reused value: after a call that did not complete, the value still lends the
/// caller's whole array (C17), so the error kind of the next call — and in particular
/// "TooManyHeaders exactly when one more header than the array can hold was received" —
/// is judged by the model with the *original* capacity.
fn check_c10_reuse(r: &Runner, l: &mut Local, rec: &CaseRec) -> Result<(), Violation> {
    let kind = rec.kind();
    let first: &[u8] = rec.bufs.first().map(|b| &b[..]).unwrap_or(&[]);
    let seq: [&[u8]; 2] = [first, &rec.buf];
    IN_PARSER.with(|c| c.set(true));
    let res = std::panic::catch_unwind(std::panic::AssertUnwindSafe(|| super::p_hist::run_sequence(kind, rec.entry, rec.cfg, &seq, rec.cap)));
    IN_PARSER.with(|c| c.set(false));
    let Ok(obs) = res else {
        return Err(Violation::new("C10/panic", "a call on a reused value panicked", rec));
    };
    if matches!(obs[0].st, St::Complete(_)) {
        // a completed call legitimately leaves fewer slots; not this phase's subject
        r.account(l, rec, false, "");
        return Ok(());
    }
    let m = model::model(kind, &rec.buf, rec.cfg, rec.cap);
    let m_tmh = matches!(&m.verdict, Verdict::Err { kinds, .. } if kinds.has(ErrKind::TooManyHeaders));
    let r_tmh = matches!(obs[1].st, St::Err(ErrKind::TooManyHeaders));
    let kind_ok = match (&obs[1].st, &m.verdict) {
        (St::Err(k), Verdict::Err { kinds, .. }) | (St::Err(k), Verdict::PartialOrErr { kinds, .. }) => kinds.has(*k),
        _ => true,
    };
    if m_tmh != r_tmh || !kind_ok {
        return Err(Violation::new(
            format!("C10/reused-value/real-{}/model-{}", obs[1].st.class(), m.verdict.class()),
            format!("after a first call that gave {} on {:?}, the same value gives {} for the second buffer; the model (capacity {} — a call that does not complete leaves the caller's whole array in place) says {} [{} cfg={:#04x}]",
                obs[0].st.show(), crate::engine::show_bytes(first, 80), obs[1].st.show(), rec.cap, m.verdict.show(), rec.entry.name(), rec.cfg),
            rec,
        ));
    }
    if l.counting {
        l.bump(status_hist_key(&obs[1].st));
    }
    r.account(l, rec, matches!(obs[1].st, St::Err(_)) && matches!(obs[0].st, St::Err(_) | St::Partial), "second call on a reused value");
    Ok(())
}

fn phase_c10_reuse(r: &Runner) {
    let prof = Profile { truncate: 30, mutate: 60, ..Profile::DEFAULT };
    r.par_random(
        "a non-completing first call (G1 message, prefix of the second, or a message with more headers than the array holds) then a second call on the same value: error kind / TooManyHeaders judged by the model with the original capacity",
        r.amount(1_000_000, 15_000_000),
        420,
        |u: &mut Choice| {
            let kind = if u.chance(128) { Kind::Response } else { Kind::Request };
            let (second, nlines) = gen::message(u, kind, &prof);
            let mut cfg = pick_cfg(u);
            let entry = pick_entry(u, kind, &mut cfg);
            let cap = pick_cap(u, nlines);
            let first = match u.weighted(&[100, 60, 96]) {
                0 => gen::message(u, kind, &prof).0,
                1 => {
                    let k = u.below(second.len() + 1);
                    second[..k].to_vec()
                }
                _ => {
                    // more well-formed headers than the array holds
                    let mut b = if kind == Kind::Request { b"GET / HTTP/1.1\r\n".to_vec() } else { b"HTTP/1.1 200 OK\r\n".to_vec() };
                    for i in 0..cap + 1 + u.below(3) {
                        b.extend_from_slice(format!("H{}: v\r\n", i).as_bytes());
                    }
                    b.extend_from_slice(b"\r\n");
                    b
                }
            };
            let mut rec = CaseRec::new("c10-reuse", entry, cfg, cap, second);
            rec.bufs = vec![first];
            rec
        },
        &|ctx, l, rec| check(Which::C10, r, ctx, l, rec),
    );
}

/// C10: TooManyHeaders precedence — k well-formed lines, capacity 0..=k+1, the
/// (cap+1)-th line cut at every byte, followed or not by a syntax error, folding on/off.
fn phase_too_many(r: &Runner, w: Which) {
    // k in 0..=4, cap in 0..=k+1, tail variant, fold, kind, cut point
    const TAILS: [&[u8]; 6] = [b"\r\n", b"", b"bad line\r\n\r\n", b"\x00", b" cont\r\n\r\n", b"Z: z\r\n\r\n"];
    const LINES: [&[u8]; 5] = [b"A: b\r\n", b"Cc:dd\n", b"E:\r\n", b"Ff: g h \r\n", b"I: j\r\n"];
    let mut cases: Vec<(usize, usize, usize, bool, Kind)> = vec![];
    for k in 0..=5usize {
        for cap in 0..=k + 1 {
            for t in 0..TAILS.len() {
                for fold in [false, true] {
                    for kind in [Kind::Request, Kind::Response, Kind::Headers] {
                        if fold && kind != Kind::Response {
                            continue;
                        }
                        cases.push((k, cap, t, fold, kind));
                    }
                }
            }
        }
    }
    let maxlen = 5 * 10 + 32;
    let total = cases.len() as u64 * (maxlen as u64 + 1);
    r.par_enum("TooManyHeaders precedence: k lines × capacity 0..=k+1 × tails × fold × kind × every cut", total, |ctx, l, idx| {
        let (k, cap, t, fold, kind) = cases[(idx / (maxlen as u64 + 1)) as usize];
        let cut = (idx % (maxlen as u64 + 1)) as usize;
        let mut block = vec![];
        for i in 0..k {
            block.extend_from_slice(LINES[i % LINES.len()]);
        }
        block.extend_from_slice(TAILS[t]);
        let full = with_start_line(kind, &block);
        let start = full.len() - block.len();
        if start + cut > full.len() {
            return Ok(());
        }
        let buf = full[..start + cut].to_vec();
        let cfg = if fold { C_MULTILINE } else { 0 };
        let entry = match kind {
            Kind::Request => Entry::ReqCfg,
            Kind::Response => Entry::RespCfg,
            _ => Entry::Headers,
        };
        let rec = CaseRec::new("model", entry, cfg, cap, buf);
        // here the verdict class matters too (TooManyHeaders *exactly when*)
        let obs = run_rec(ctx, &rec);
        let m = run_model(&rec);
        if let Err(mm) = crate::cmp::compare(&obs, &m, W_VERDICT | W_ERRKIND) {
            return Err(Violation::new(
                format!("{}/{}", w.id(), mm.sig),
                format!("{} [{} cfg={:#04x} cap={}]", mm.detail, rec.entry.name(), rec.cfg, rec.cap),
                &rec,
            ));
        }
        if l.counting {
            l.bump(status_hist_key(&obs.st));
        }
        r.account(l, &rec, matches!(obs.st, St::Err(_)) && cut > 0, "too-many-headers precedence");
        Ok(())
    });
}

/// C09 (ii): digit counts 0..=20 × boundary digit patterns × tails, and all prefixes.
fn phase_chunk_digits(r: &Runner) {
    const TAILS: [&[u8]; 9] = [b"\r\n", b" \r\n", b";x\r\n", b"\r", b"", b"\t;\r\n", b"\n", b" 1\r\n", b";a\rb\r\n"];
    let pats = 8u64;
    // digit counts: 0..=40, then around narrow-counter boundaries
    let counts: Vec<usize> = (0..=40usize).chain(250..=275).chain(510..=530).chain(65530..=65555).collect();
    let total = counts.len() as u64 * pats * TAILS.len() as u64;
    let build = |idx: u64| -> Vec<u8> {
        let mut x = idx;
        let t = (x % TAILS.len() as u64) as usize;
        x /= TAILS.len() as u64;
        let pat = x % pats;
        x /= pats;
        let nd = counts[x as usize];
        let mut buf = Vec::new();
        for i in 0..nd {
            buf.push(match pat {
                0 => b'0',
                1 => b'f',
                2 => if i == 0 { b'1' } else { b'0' },
                3 => if i == 0 { b'7' } else { b'f' },
                4 => if i == 0 { b'8' } else { b'0' },
                5 => if i < nd / 2 { b'0' } else { b'A' },
                6 => b"0123456789abcdefABCDEF"[(i * 7 + nd) % 22],
                _ => b'F',
            });
        }
        buf.extend_from_slice(TAILS[t]);
        buf
    };
    r.par_enum("digit counts 0..=40, 250..=275, 510..=530, 65530..=65555 × 8 boundary patterns × 9 tails", total, |ctx, l, idx| {
        let rec = CaseRec::new("model", Entry::Chunk, 0, 0, build(idx));
        check(Which::C09, r, ctx, l, &rec)
    });
    r.par_enum("prefixes (first 31 lengths and last 8) of the digit-count family", total * 40, |ctx, l, idx| {
        let full = build(idx / 40);
        let j = (idx % 40) as usize;
        let k = if j < 32 { j } else { full.len().saturating_sub(j - 32) };
        if k > full.len() {
            return Ok(());
        }
        let rec = CaseRec::new("model", Entry::Chunk, 0, 0, full[..k].to_vec());
        check(Which::C09, r, ctx, l, &rec)
    });
}

/// every hex digit character at every position of digit strings of length 1..=17
fn phase_chunk_all_digits(r: &Runner) {
    const HEX: &[u8; 22] = b"0123456789abcdefABCDEF";
    const TAILS: [&[u8]; 4] = [b"\r\n", b" \t;x=y\r\n", b";\r\n", b"\r"];
    let mut offs = vec![0u64];
    for nd in 1..=17u64 {
        offs.push(offs.last().unwrap() + nd);
    }
    let total = *offs.last().unwrap() * 22 * 3 * 4;
    r.par_enum("digit strings of length 1..=17: each of the 22 hex digit characters at every position × 3 background patterns × 4 tails", total, |ctx, l, idx| {
        let mut x = idx;
        let tail = TAILS[(x % 4) as usize];
        x /= 4;
        let bg = x % 3;
        x /= 3;
        let d = HEX[(x % 22) as usize];
        x /= 22;
        let li = offs.partition_point(|&o| o <= x) - 1;
        let nd = li + 1;
        let pos = (x - offs[li]) as usize;
        let mut buf: Vec<u8> = (0..nd).map(|i| match bg { 0 => b'0', 1 => b'f', _ => HEX[(i * 5 + nd) % 22] }).collect();
        buf[pos] = d;
        buf.extend_from_slice(tail);
        let rec = CaseRec::new("model", Entry::Chunk, 0, 0, buf);
        check(Which::C09, r, ctx, l, &rec)
    });
}

/// methods of every length 1..=64 with a boundary byte at every position
fn phase_methods(r: &Runner) {
    const VALS: [u8; 16] = [b'A', b'z', b'0', b'!', b'~', b'|', b'@', b'(', b':', b' ', b'\t', 0x7f, 0x80, 0x00, b'\r', b'/'];
    let mut offs = vec![0u64];
    for len in 1..=64u64 {
        offs.push(offs.last().unwrap() + len);
    }
    let total = *offs.last().unwrap() * 16 * 2;
    r.par_enum("methods of every length 1..=64 × 16 boundary bytes at every position × multi-space", total, |ctx, l, idx| {
        let mut x = idx;
        let multi = x % 2 == 1;
        x /= 2;
        let v = VALS[(x % 16) as usize];
        x /= 16;
        let li = offs.partition_point(|&o| o <= x) - 1;
        let len = li + 1;
        let pos = (x - offs[li]) as usize;
        let mut buf: Vec<u8> = (0..len).map(|i| b"GETPOSTX-M.a"[i % 12]).collect();
        buf[pos] = v;
        buf.extend_from_slice(b" /p HTTP/1.1\r\nA: b\r\n\r\n");
        let rec = CaseRec::new("model", Entry::ReqCfg, if multi { C_MULTISPACE_REQ } else { 0 }, 4, buf);
        check(Which::C06, r, ctx, l, &rec)
    });
}

/// the 16 header base blocks behind start lines of every length (the header block then
/// starts at every offset / alignment)
fn phase_hdr_offsets(w: Which, r: &Runner, combos: &[(Entry, u8)]) {
    let combos: Vec<(Entry, u8)> = combos.iter().cloned().filter(|c| c.0 != Entry::Headers).collect();
    if combos.is_empty() {
        return;
    }
    let total = HDR_BASES.len() as u64 * 71 * combos.len() as u64 * 2;
    r.par_enum("16 header base blocks × start-line padding 0..=70 × option combos × {CRLF, LF start line}", total, |ctx, l, idx| {
        let mut x = idx;
        let lf = x % 2 == 1;
        x /= 2;
        let (entry, cfg) = combos[(x % combos.len() as u64) as usize];
        x /= combos.len() as u64;
        let pad = (x % 71) as usize;
        let base = HDR_BASES[(x / 71) as usize];
        let mut buf = Vec::with_capacity(base.len() + pad + 32);
        if entry.kind() == Kind::Request {
            buf.extend_from_slice(b"GET /");
            buf.extend(std::iter::repeat(b'p').take(pad));
            buf.extend_from_slice(b" HTTP/1.1");
        } else {
            buf.extend_from_slice(b"HTTP/1.1 200 ");
            buf.extend(std::iter::repeat(b'r').take(pad));
        }
        buf.extend_from_slice(if lf { b"\n" } else { b"\r\n" });
        buf.extend_from_slice(base);
        let rec = CaseRec::new("model", entry, cfg, 16, buf);
        check(w, r, ctx, l, &rec)
    });
}

fn phase_chunk_exhaustive(r: &Runner, maxlen: u32) {
    let total = gen::count_upto(14, maxlen);
    r.par_enum(&format!("chunk-size strings over the 14-symbol alphabet, length ≤{}", maxlen), total, |ctx, l, idx| {
        let mut buf = Vec::with_capacity(8);
        gen::nth_string(&CHUNK_ALPHABET, idx, &mut buf);
        let rec = CaseRec::new("model", Entry::Chunk, 0, 0, buf);
        check(Which::C09, r, ctx, l, &rec)
    });
}

static CHUNK_KINDS: [Kind; 1] = [Kind::Chunk];
static REQ_KINDS: [Kind; 1] = [Kind::Request];
static RESP_KINDS: [Kind; 1] = [Kind::Response];

fn families(w: Which, r: &Runner) {
    let accept: &(dyn Fn(Entry, u8) -> bool + Sync) = match w {
        Which::C06 => &|e: Entry, _c: u8| e.kind() == Kind::Request,
        Which::C07 => &|e: Entry, _c: u8| e.kind() == Kind::Response,
        Which::C08 => &|e: Entry, c: u8| e.kind() != Kind::Chunk && c == 0,
        Which::C09 => &|e: Entry, _c: u8| e.kind() == Kind::Chunk,
        Which::C10 => &|e: Entry, _c: u8| e.kind() != Kind::Chunk,
        Which::C14 => &|e: Entry, _c: u8| matches!(e.kind(), Kind::Request | Kind::Response),
    };
    families_phase(r, "model", accept, move |r, ctx, l, rec| check(w, r, ctx, l, rec));
    dict_phase(r, "model", accept, move |r, ctx, l, rec| check(w, r, ctx, l, rec));
    dict_dup_phase(r, "model", accept, move |r, ctx, l, rec| check(w, r, ctx, l, rec));
    selftest_phase(r, "model", accept, move |r, ctx, l, rec| check(w, r, ctx, l, rec));
    repeat_boundary_phase(r, "model", accept, move |r, ctx, l, rec| check(w, r, ctx, l, rec));
    after_blank_run_phase(r, "model", accept, move |r, ctx, l, rec| check(w, r, ctx, l, rec));
    pair_phase(r, "model", accept, move |r, ctx, l, rec| check(w, r, ctx, l, rec));
    long_target_phase(r, "model", accept, move |r, ctx, l, rec| check(w, r, ctx, l, rec));
    long_field_phase(r, "model", accept, move |r, ctx, l, rec| check(w, r, ctx, l, rec));
    // well-known literals: 256 values at every position + every prefix
    let mut offs = vec![0u64];
    for (b, _) in LITERAL_BASES.iter() {
        offs.push(offs.last().unwrap() + b.len() as u64 * 257);
    }
    r.par_enum("well-known literal messages (HTTP/2 preface, HEAD, CONNECT, 100-continue, ...): 256 values at every position + every prefix", *offs.last().unwrap(), |ctx, l, idx| {
        let bi = offs.partition_point(|&o| o <= idx) - 1;
        let (base, entry) = LITERAL_BASES[bi];
        if !accept(entry, 0) {
            return Ok(());
        }
        let x = idx - offs[bi];
        let pos = (x / 257) as usize;
        let v = x % 257;
        let buf = if v == 256 {
            base[..pos].to_vec()
        } else {
            let mut b = base.to_vec();
            b[pos] = v as u8;
            b
        };
        let rec = CaseRec::new("model", entry, 0, 8, buf);
        check(w, r, ctx, l, &rec)
    });
}

/// k leading CRLFs (k = 0..=40, also mixed with bare LF) followed by a start line that is
/// valid, truncated after 1..=15 bytes, or has a bad byte among its first 15 bytes.
fn phase_leading_lines(w: Which, r: &Runner) {
    let kinds: &[Kind] = match w {
        Which::C06 => &[Kind::Request],
        Which::C07 => &[Kind::Response],
        Which::C10 => &[Kind::Request, Kind::Response],
        _ => return,
    };
    const BAD: [u8; 6] = [0x00, 0x01, b'\r', b' ', 0x7f, b'\t'];
    let total = kinds.len() as u64 * 41 * 2 * (1 + 15 + 15 * BAD.len() as u64);
    r.par_enum("k leading empty lines (0..=40, exact CRLF or mixed with LF) × {whole start line, cut after 1..=15 bytes, bad byte at each of the first 15 positions}", total, |ctx, l, idx| {
        let per = 1 + 15 + 15 * BAD.len() as u64;
        let v = idx % per;
        let mut x = idx / per;
        let mixed = x % 2 == 1;
        x /= 2;
        let k = (x % 41) as usize;
        let kind = kinds[(x / 41) as usize];
        let mut buf = Vec::new();
        for i in 0..k {
            buf.extend_from_slice(if mixed && i % 3 == 1 { b"\n" } else { b"\r\n" });
        }
        let line: &[u8] = if kind == Kind::Request { b"GET /index.html HTTP/1.1\r\nA: b\r\n\r\n" } else { b"HTTP/1.1 200 OK fine\r\nA: b\r\n\r\n" };
        if v == 0 {
            buf.extend_from_slice(line);
        } else if v <= 15 {
            buf.extend_from_slice(&line[..v as usize]);
        } else {
            let y = v - 16;
            let pos = (y % 15) as usize;
            let mut ln = line.to_vec();
            ln[pos] = BAD[(y / 15) as usize];
            // keep only up to a few bytes after the bad byte: the call must decide on what it has
            ln.truncate(pos + 1 + (idx % 3) as usize);
            buf.extend_from_slice(&ln);
        }
        let rec = CaseRec::new("model", Entry::cfg_entry(kind), 0, 8, buf);
        check(w, r, ctx, l, &rec)
    });
}

/// many header lines with ample capacity (a hidden cap on the number of headers shows as a
/// TooManyHeaders that the model does not predict)
fn phase_many_lines(w: Which, r: &Runner) {
    if !matches!(w, Which::C08 | Which::C10 | Which::C14) {
        return;
    }
    const KS: [usize; 8] = [100, 257, 1025, 4097, 5000, 9000, 33000, 70000];
    r.par_enum("k header lines for k in {100,257,1025,4097,5000,9000,33000,70000} × capacity k+{0,1,50} × 3 entry kinds × {complete, truncated}", 8 * 3 * 3 * 2, |ctx, l, idx| {
        let mut x = idx;
        let trunc = x % 2 == 1;
        x /= 2;
        let entry = [Entry::Headers, Entry::ReqCfg, Entry::RespCfg][(x % 3) as usize];
        x /= 3;
        let dc = [0usize, 1, 50][(x % 3) as usize];
        let k = KS[(x / 3) as usize];
        if w == Which::C14 && entry == Entry::Headers {
            return Ok(());
        }
        let mut block = Vec::with_capacity(k * 8);
        for i in 0..k {
            block.extend_from_slice(if i % 3 == 0 { b"a: b\r\n" } else { b"Cc:d\n" });
        }
        if !trunc {
            block.extend_from_slice(b"\r\n");
        }
        let rec = CaseRec::new("model", entry, 0, k + dc, with_start_line(entry.kind(), &block));
        check(w, r, ctx, l, &rec)
    });
}

/// k stored header lines for k at narrow-counter boundaries, followed by a line of a special
/// shape, under every header-option combination
fn phase_boundary_counts(w: Which, r: &Runner) {
    let combos: Vec<(Entry, u8)> = match w {
        Which::C08 => default_combos(),
        Which::C14 | Which::C10 => c14_combos(),
        _ => return,
    };
    const KS: [usize; 10] = [254, 255, 256, 257, 511, 512, 65534, 65535, 65536, 65537];
    const TAILS: [&[u8]; 8] = [b" Lead: x\r\n\r\n", b"\t\r\n\r\n", b" cont\r\n\r\n", b"bad line\r\n\r\n", b"\r\n", b"N : v\r\n\r\n", b"E:\r\n \r\n\r\n", b"X: y\x00\r\n\r\n"];
    let total = KS.len() as u64 * TAILS.len() as u64 * combos.len() as u64;
    r.par_enum("k stored header lines for k in {254..257, 511, 512, 65534..65537} followed by one of 8 special lines (whitespace-led, whitespace-only, continuation, invalid, terminator, space before colon, empty-value fold, NUL) × option combos, ample capacity", total, |ctx, l, idx| {
        let mut x = idx;
        let (entry, cfg) = combos[(x % combos.len() as u64) as usize];
        x /= combos.len() as u64;
        let tail = TAILS[(x % TAILS.len() as u64) as usize];
        let k = KS[(x / TAILS.len() as u64) as usize];
        let mut block = Vec::with_capacity(k * 5 + 32);
        for _ in 0..k {
            block.extend_from_slice(b"a:b\n");
        }
        block.extend_from_slice(tail);
        let rec = CaseRec::new("model", entry, cfg, k + 8, with_start_line(entry.kind(), &block));
        check(w, r, ctx, l, &rec)
    });
}

pub fn run(w: Which, r: &Runner) {
    families(w, r);
    phase_leading_lines(w, r);
    phase_many_lines(w, r);
    phase_boundary_counts(w, r);
    match w {
        Which::C06 => {
            phase_methods(r);
            phase_start_sweep(w, r);
            phase_targets(r, if r.quick() { 70 } else { 100 });
            phase_start_tokens(w, r, if r.quick() { 5 } else { 6 });
            phase_g1(w, r, r.amount(5_000_000, 80_000_000), &REQ_KINDS, Profile::DEFAULT, 0x7f, true);
        }
        Which::C07 => {
            phase_start_sweep(w, r);
            phase_codes_reasons(r);
            phase_start_tokens(w, r, if r.quick() { 5 } else { 6 });
            phase_g1(w, r, r.amount(5_000_000, 80_000_000), &RESP_KINDS, Profile::DEFAULT, 0x7f, true);
        }
        Which::C08 => {
            let combos = default_combos();
            phase_hdr_offsets(w, r, &combos);
            phase_hdr_sweep(w, r, &combos);
            phase_hdr_lanes(w, r, if r.quick() { 70 } else { 100 }, &combos);
            phase_hdr_exhaustive(w, r, if r.quick() { 6 } else { 7 }, &combos,
                "header strings over the 11-symbol alphabet × 8 resume contexts × 3 entry kinds (default config)");
            // default configuration only: mask all option bits
            phase_g1(w, r, r.amount(5_000_000, 80_000_000), &MSG_KINDS, Profile::DEFAULT, 0, true);
        }
        Which::C09 => {
            phase_chunk_all_digits(r);
            phase_chunk_digits(r);
            phase_chunk_exhaustive(r, if r.quick() { 6 } else { 7 });
            phase_g1(w, r, r.amount(2_000_000, 30_000_000), &CHUNK_KINDS, Profile::DEFAULT, 0, true);
        }
        Which::C10 => {
            phase_too_many(r, w);
            phase_c10_reuse(r);
            phase_start_sweep(Which::C10, r);
            // response bases too
            c10_resp_sweep(r);
            let combos = c14_combos();
            phase_hdr_sweep(w, r, &combos[..if r.quick() { 8 } else { 32 }]);
            phase_hdr_exhaustive(w, r, if r.quick() { 5 } else { 6 }, &combos,
                "header strings (11-symbol alphabet) × 8 contexts × 32 option/kind combos, rejected ones judged");
            phase_start_tokens_kind(r, Kind::Request, if r.quick() { 4 } else { 5 });
            phase_start_tokens_kind(r, Kind::Response, if r.quick() { 4 } else { 5 });
            phase_g1(w, r, r.amount(5_000_000, 80_000_000), &MSG_KINDS, Profile::DEFAULT, 0x7f, false);
        }
        Which::C14 => {
            let combos = c14_combos();
            phase_hdr_offsets(w, r, &combos);
            phase_hdr_sweep(w, r, &combos);
            phase_hdr_lanes(w, r, if r.quick() { 40 } else { 100 }, &combos);
            phase_hdr_exhaustive(w, r, if r.quick() { 5 } else { 6 }, &combos,
                "header strings (11-symbol alphabet) × 8 contexts × 16 option combos × {request,response}");
            phase_g1(w, r, r.amount(4_000_000, 80_000_000), &RR_KINDS, Profile::LENIENT, 0x7f, false);
            // last sentence of C14: kept headers identical to the strict parse
            let g = GenSpec { kinds: &RR_KINDS, profile: Profile::CLEAN, generous_cap: true, cfg_mask: 0x7f, cfg_entry_only: true };
            r.par_random(
                "kept headers reported identically with and without the options (strict-valid blocks)",
                r.amount(2_000_000, 30_000_000),
                160,
                |u: &mut Choice| g1_case(u, "c14-kept-identical", &g),
                &|ctx, l, rec| check(w, r, ctx, l, rec),
            );
        }
    }
}

fn c10_resp_sweep(r: &Runner) {
    // C10 sweeps both request and response bases: phase_start_sweep picks by `w`, so do the
    // response side through C07's base list with C10's comparison.
    let bases: &[&[u8]] = &RESP_BASES;
    let mut offs = vec![0u64];
    for b in bases {
        offs.push(offs.last().unwrap() + (b.len() as u64) * 256 * 2);
    }
    r.par_enum("response byte sweep (error kinds)", *offs.last().unwrap(), |ctx, l, idx| {
        let bi = offs.partition_point(|&o| o <= idx) - 1;
        let mut x = idx - offs[bi];
        let multi = x % 2 == 1;
        x /= 2;
        let val = (x % 256) as u8;
        let pos = (x / 256) as usize;
        let mut buf = bases[bi].to_vec();
        buf[pos] = val;
        let rec = CaseRec::new("model", Entry::RespCfg, if multi { C_MULTISPACE_RESP } else { 0 }, 8, buf);
        check(Which::C10, r, ctx, l, &rec)
    });
}

fn phase_start_tokens_kind(r: &Runner, kind: Kind, maxlen: u32) {
    let per = gen::count_upto(17, maxlen);
    let total = per * 2 * 3;
    let multibit = if kind == Kind::Request { C_MULTISPACE_REQ } else { C_MULTISPACE_RESP };
    let entry = Entry::cfg_entry(kind);
    r.par_enum(&format!("{} start-line tokens ≤{} (error kinds)", kind.name(), maxlen), total, |ctx, l, idx| {
        let s = idx % per;
        let v = idx / per;
        let multi = v % 2 == 1;
        let suffix = START_SUFFIXES_REQ[(v / 2) as usize];
        let mut buf = Vec::with_capacity(48);
        gen::nth_string(&START_ALPHABET, s, &mut buf);
        buf.extend_from_slice(suffix);
        let rec = CaseRec::new("model", entry, if multi { multibit } else { 0 }, 8, buf);
        check(Which::C10, r, ctx, l, &rec)
    });
}
