//! C11 — honest Partial: every buffer yielding Partial has a continuation that the real
//! parser completes. Existential oracle decided by search with the real parser.

use super::common::*;
use crate::arena::Placement;
use crate::choice::Choice;
use crate::engine::{CaseRec, Local, Runner, Violation};
use crate::gen::{self, Profile, CHUNK_ALPHABET, HDR_ALPHABET, HDR_CONTEXTS, START_ALPHABET};
use crate::model::Verdict;
use crate::real::*;
use std::sync::OnceLock;

/// The universal completion set: every tail of a few complete messages.
fn universal(kind: Kind) -> &'static Vec<Vec<u8>> {
    static U: OnceLock<[Vec<Vec<u8>>; 4]> = OnceLock::new();
    let all = U.get_or_init(|| {
        let tails = |fulls: &[&[u8]]| -> Vec<Vec<u8>> {
            let mut v: Vec<Vec<u8>> = vec![];
            for f in fulls {
                for i in 0..f.len() {
                    let t = f[i..].to_vec();
                    if !v.contains(&t) {
                        v.push(t);
                    }
                }
            }
            // shortest first: the witness reported is then a short one
            v.sort_by_key(|t| t.len());
            v
        };
        [
            tails(&[b"GET / HTTP/1.1\r\n\r\n", b"A: v\r\n\r\n", b"\n\n", b" HTTP/1.0\n\n"]),
            tails(&[b"HTTP/1.1 200 OK\r\n\r\n", b"A: v\r\n\r\n", b"\n\n", b" 200\n\n"]),
            tails(&[b"A: v\r\n\r\n", b"\n\n"]),
            tails(&[b"0\r\n", b";x\r\n"]),
        ]
    });
    &all[match kind {
        Kind::Request => 0,
        Kind::Response => 1,
        Kind::Headers => 2,
        Kind::Chunk => 3,
    }]
}

/// continuation bytes that complete a truncated UTF-8 sequence at the end of `b`
fn utf8_completions(b: &[u8]) -> Vec<Vec<u8>> {
    let mut out = vec![];
    for back in 1..=3usize {
        if back > b.len() {
            break;
        }
        let tail = &b[b.len() - back..];
        if !(0xC2..=0xF4).contains(&tail[0]) {
            continue;
        }
        const C: [u8; 5] = [0x80, 0x90, 0xA0, 0xBF, 0x8F];
        for n in 1..=3usize {
            let mut idx = vec![0usize; n];
            'outer: loop {
                let mut cand = tail.to_vec();
                let cont: Vec<u8> = idx.iter().map(|&i| C[i]).collect();
                cand.extend_from_slice(&cont);
                if std::str::from_utf8(&cand).is_ok() {
                    out.push(cont);
                }
                for k in 0..n {
                    idx[k] += 1;
                    if idx[k] < C.len() {
                        continue 'outer;
                    }
                    idx[k] = 0;
                }
                break;
            }
        }
    }
    out
}

fn status_of(ctx: &mut Ctx, rec: &CaseRec, buf: &[u8], cap: usize) -> St {
    ctx.run(&Spec { entry: rec.entry, cfg: rec.cfg, cap, place: Placement::End, hdr_at_end: true, prefill: Prefill::Empty, buf }).st
}

/// Search a completion of `b` (known Partial). Returns the witness suffix.
fn find_witness(ctx: &mut Ctx, rec: &CaseRec, b: &[u8], cap: usize, parses: &mut u64) -> Option<Vec<u8>> {
    let kind = rec.kind();
    let u = universal(kind);
    let mut partial_next: Vec<&Vec<u8>> = vec![];
    let mut buf = Vec::with_capacity(b.len() + 64);
    for s in u.iter() {
        buf.clear();
        buf.extend_from_slice(b);
        buf.extend_from_slice(s);
        *parses += 1;
        match status_of(ctx, rec, &buf, cap) {
            St::Complete(_) => return Some(s.clone()),
            St::Partial => partial_next.push(s),
            _ => {}
        }
    }
    // truncated UTF-8 in a request target
    if kind == Kind::Request {
        for cont in utf8_completions(b) {
            for s in u.iter() {
                buf.clear();
                buf.extend_from_slice(b);
                buf.extend_from_slice(&cont);
                buf.extend_from_slice(s);
                *parses += 1;
                if let St::Complete(_) = status_of(ctx, rec, &buf, cap) {
                    return Some([&cont[..], &s[..]].concat());
                }
            }
        }
    }
    // depth 2
    for s in partial_next.iter().take(12) {
        for t in u.iter() {
            buf.clear();
            buf.extend_from_slice(b);
            buf.extend_from_slice(s);
            buf.extend_from_slice(t);
            *parses += 1;
            if let St::Complete(_) = status_of(ctx, rec, &buf, cap) {
                return Some([&s[..], &t[..]].concat());
            }
        }
    }
    None
}

/// rec.buf = base; every prefix that yields Partial must be completable.
pub fn check(r: &Runner, ctx: &mut Ctx, l: &mut Local, rec: &CaseRec) -> Result<(), Violation> {
    let b = &rec.buf;
    let cap = b.iter().filter(|&&c| c == b'\n').count() + 8;
    let ks: Vec<usize> = if rec.sub == "partial-one" {
        vec![b.len()]
    } else if b.len() <= 300 {
        (0..=b.len()).collect()
    } else {
        let mut v: Vec<usize> = (0..48).map(|i| i * b.len() / 48).collect();
        v.extend(b.len() - 8..=b.len());
        v
    };
    let mut partials = 0u64;
    let mut parses = 0u64;
    let mut excluded = 0u64;
    let mut nontrivial_witness = false;
    for &k in &ks {
        let p = &b[..k];
        parses += 1;
        let st = status_of(ctx, rec, p, cap);
        match st {
            St::Partial => {}
            St::Panic(m) => return Err(Violation::new("C11/panic", format!("parser panicked: {}", m), rec)),
            // prefixes are nested: once decided, longer prefixes are C02's business
            _ => break,
        }
        partials += 1;
        // stated exception: the target already contains a definitely invalid UTF-8 sequence
        if rec.kind() == Kind::Request {
            let m = crate::model::model_request(p, rec.cfg, cap);
            if matches!(m.verdict, Verdict::PartialOrErr { .. }) {
                excluded += 1;
                continue;
            }
        }
        match find_witness(ctx, rec, p, cap + 4, &mut parses) {
            Some(w) => {
                if k >= 4 && w.len() > 2 {
                    nontrivial_witness = true;
                }
            }
            None => {
                let mut one = rec.clone();
                one.sub = std::borrow::Cow::Borrowed("partial-one");
                one.buf = p.to_vec();
                return Err(Violation::new(
                    format!("C11/dishonest-partial/{}", rec.kind().name()),
                    format!("Partial for a {}-byte buffer, but none of the completions tried (universal tails, UTF-8 continuations, depth 2) is accepted by the parser [{} cfg={:#04x}]", k, rec.entry.name(), rec.cfg),
                    &one,
                ));
            }
        }
    }
    if l.counting {
        l.add("partials-judged", partials);
        l.add("witness-search-parses", parses);
        l.add("excluded:invalid-utf8-target", excluded);
        l.bump(kind_hist_key(rec.kind()));
    }
    r.account(l, rec, nontrivial_witness, &format!("{} Partial prefixes judged", partials));
    Ok(())
}

pub fn run(r: &Runner) {
    families_phase(r, "partial-prefixes", &|_e, _c| true, check);
    chunk_sweep_phase(r, "partial-prefixes", check);
    long_target_phase(r, "partial-one", &|_e, _c| true, check);
    long_field_phase(r, "partial-one", &|_e, _c| true, check);
    // k leading empty lines then a start line cut / damaged within its first 15 bytes
    {
        const BAD: [u8; 6] = [0x00, 0x01, b'\r', b' ', 0x7f, b'\t'];
        let per = 16 + 15 * BAD.len() as u64;
        r.par_enum("k leading empty lines (0..=40, exact CRLF or mixed) × start line cut after 0..=15 bytes or with a bad byte at one of its first 15 positions, judged if Partial", 2 * 41 * 2 * per, |ctx, l, idx| {
            let v = idx % per;
            let mut x = idx / per;
            let mixed = x % 2 == 1;
            x /= 2;
            let k = (x % 41) as usize;
            let is_resp = x / 41 == 1;
            let mut buf = Vec::new();
            for i in 0..k {
                buf.extend_from_slice(if mixed && i % 3 == 1 { b"\n" } else { b"\r\n" });
            }
            let line: &[u8] = if is_resp { b"HTTP/1.1 200 OK fine\r\n" } else { b"GET /index.html HTTP/1.1\r\n" };
            if v < 16 {
                buf.extend_from_slice(&line[..v as usize]);
            } else {
                let y = v - 16;
                let pos = (y % 15) as usize;
                let mut ln = line[..pos + 1].to_vec();
                ln[pos] = BAD[(y / 15) as usize];
                buf.extend_from_slice(&ln);
            }
            let rec = CaseRec::new("partial-one", if is_resp { Entry::RespParse } else { Entry::ReqParse }, 0, 8, buf);
            check(r, ctx, l, &rec)
        });
    }
    static K: [Kind; 4] = ALL_KINDS;
    let g = GenSpec { kinds: &K, profile: Profile { truncate: 8, mutate: 100, ..Profile::DEFAULT }, generous_cap: true, cfg_mask: 0x7f, cfg_entry_only: false };
    r.par_random(
        "G1 bases with mutations: every prefix that yields Partial needs a completion",
        r.amount(400_000, 6_000_000),
        160,
        |u: &mut Choice| g1_case(u, "partial-prefixes", &g),
        &|ctx, l, rec| check(r, ctx, l, rec),
    );
    let g2 = GenSpec { kinds: &RR_KINDS, profile: Profile { truncate: 8, ..Profile::LENIENT }, generous_cap: true, cfg_mask: 0x7f, cfg_entry_only: true };
    r.par_random(
        "G1 lenient-weighted bases (folds, ignored lines, whitespace options)",
        r.amount(300_000, 4_000_000),
        160,
        |u: &mut Choice| g1_case(u, "partial-prefixes", &g2),
        &|ctx, l, rec| check(r, ctx, l, rec),
    );
    // byte sweeps: any byte at any position of valid bases, then all prefixes
    const BASES: [(&[u8], Entry, u8); 8] = [
        (b"GET /path HTTP/1.1\r\nHost: a\r\n\r\n", Entry::ReqParse, 0),
        (b"POST  /x  HTTP/1.0\nA:b\n\n", Entry::ReqCfg, C_MULTISPACE_REQ),
        (b"HTTP/1.1 200 OK\r\nA: b\r\n\r\n", Entry::RespParse, 0),
        (b"HTTP/1.0  404  Not Found\r\nA : b\r\n c\r\n\r\n", Entry::RespCfg, C_MULTISPACE_RESP | C_MULTILINE | C_SPACES_AFTER_NAME),
        (b"HTTP/1.1 200\r\n A: b\r\nbad\r\n\r\n", Entry::RespCfg, C_SPACE_BEFORE_FIRST | C_IGNORE_RESP),
        (b"Name: value\r\nB: c\r\n\r\n", Entry::Headers, 0),
        (b"1aF \t;ext\r\n", Entry::Chunk, 0),
        (b"GET /caf\xc3\xa9\xe2\x82\xac\xf0\x9f\x98\x80 HTTP/1.1\r\n\r\n", Entry::ReqParse, 0),
    ];
    let mut offs = vec![0u64];
    for (b, _, _) in BASES.iter() {
        offs.push(offs.last().unwrap() + b.len() as u64 * 256);
    }
    r.par_enum("256 byte values at every position of 8 bases, the prefix ending at the swept byte judged", *offs.last().unwrap(), |ctx, l, idx| {
        let bi = offs.partition_point(|&o| o <= idx) - 1;
        let (base, entry, cfg) = BASES[bi];
        let x = idx - offs[bi];
        let val = (x % 256) as u8;
        let pos = (x / 256) as usize;
        let mut buf = base[..=pos].to_vec();
        buf[pos] = val;
        let rec = CaseRec::new("partial-one", entry, cfg, 8, buf);
        check(r, ctx, l, &rec)
    });
    // bounded-exhaustive: start-line tokens, header strings, chunk strings (each whole string judged)
    let n = gen::count_upto(17, if r.quick() { 4 } else { 5 });
    r.par_enum("start-line token strings (17 tokens) × {request,response} × multi-space, each judged if Partial", n * 4, |ctx, l, idx| {
        let s = idx % n;
        let v = idx / n;
        let (entry, bit) = if v % 2 == 0 { (Entry::ReqCfg, C_MULTISPACE_REQ) } else { (Entry::RespCfg, C_MULTISPACE_RESP) };
        let mut buf = vec![];
        gen::nth_string(&START_ALPHABET, s, &mut buf);
        let rec = CaseRec::new("partial-one", entry, if v / 2 == 1 { bit } else { 0 }, 8, buf);
        check(r, ctx, l, &rec)
    });
    let n = gen::count_upto(11, if r.quick() { 4 } else { 5 });
    let combos: Vec<(Entry, u8)> = {
        let mut v = vec![(Entry::Headers, 0u8), (Entry::ReqCfg, 0), (Entry::ReqCfg, C_IGNORE_REQ | C_SPACE_BEFORE_FIRST)];
        for c in [0u8, C_MULTILINE, C_IGNORE_RESP, C_SPACES_AFTER_NAME, C_SPACE_BEFORE_FIRST, C_MULTILINE | C_IGNORE_RESP, 0x33] {
            v.push((Entry::RespCfg, c));
        }
        v
    };
    r.par_enum("header strings (11-symbol alphabet) × 8 contexts × 10 option/kind combos, each judged if Partial", n * 8 * combos.len() as u64, |ctx, l, idx| {
        let s = idx % n;
        let x = idx / n;
        let c = (x % 8) as usize;
        let (entry, cfg) = combos[(x / 8) as usize];
        let mut block = HDR_CONTEXTS[c].to_vec();
        gen::nth_string(&HDR_ALPHABET, s, &mut block);
        let rec = CaseRec::new("partial-one", entry, cfg, 8, with_start_line(entry.kind(), &block));
        check(r, ctx, l, &rec)
    });
    let n = gen::count_upto(14, if r.quick() { 4 } else { 5 });
    r.par_enum("chunk-size strings (14-symbol alphabet), each judged if Partial", n, |ctx, l, idx| {
        let mut buf = vec![];
        gen::nth_string(&CHUNK_ALPHABET, idx, &mut buf);
        let rec = CaseRec::new("partial-one", Entry::Chunk, 0, 0, buf);
        check(r, ctx, l, &rec)
    });
}
