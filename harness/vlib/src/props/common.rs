//! Shared pieces of the per-property checks.

use crate::arena::Placement;
use crate::choice::Choice;
use crate::cmp;
use crate::engine::{CaseRec, Local, Runner, Violation};
use crate::gen::{self, Profile};
use crate::model::{self, MOut};
use crate::real::{Ctx, Entry, Kind, Obs, Prefill, Spec, St};

pub const REQ_ENTRIES: [Entry; 4] =
    [Entry::ReqParse, Entry::ReqCfg, Entry::ReqUninit, Entry::ReqCfgUninit];
pub const RESP_ENTRIES: [Entry; 4] =
    [Entry::RespParse, Entry::RespCfg, Entry::RespUninit, Entry::RespCfgUninit];

pub fn entries_of(kind: Kind) -> &'static [Entry] {
    match kind {
        Kind::Request => &REQ_ENTRIES,
        Kind::Response => &RESP_ENTRIES,
        Kind::Headers => &[Entry::Headers],
        Kind::Chunk => &[Entry::Chunk],
    }
}

pub fn pick_cfg(u: &mut Choice) -> u8 {
    match u.weighted(&[60, 60, 16, 120]) {
        0 => 0,
        1 => 1 << u.below(7),
        2 => 0x7f,
        _ => u.byte() & 0x7f,
    }
}

pub fn pick_cap(u: &mut Choice, k: usize) -> usize {
    match u.weighted(&[120, 30, 30, 30, 20, 10, 10, 6]) {
        0 => 64,
        1 => k,
        2 => k + 1,
        3 => k.saturating_sub(1),
        4 => 0,
        5 => 1,
        6 => k + 2,
        _ => u.range(0, 16),
    }
}

pub fn pick_place(u: &mut Choice) -> Placement {
    match u.weighted(&[150, 40, 36, 30]) {
        0 => Placement::End,
        1 => Placement::Start,
        2 => Placement::Interior(u.below(64) as u8),
        _ => Placement::Cross(u.below(190) as u8),
    }
}

/// Pick entry point for a kind; entries that do not take a config force cfg = 0.
pub fn pick_entry(u: &mut Choice, kind: Kind, cfg: &mut u8) -> Entry {
    let es = entries_of(kind);
    let e = if *cfg != 0 && es.len() == 4 {
        // non-default config: one of the two config-taking entry points, mostly
        if u.chance(200) {
            if u.chance(128) { es[1] } else { es[3] }
        } else {
            *u.pick(es)
        }
    } else {
        *u.pick(es)
    };
    if !e.takes_cfg() {
        *cfg = 0;
    }
    e
}

pub struct GenSpec {
    pub kinds: &'static [Kind],
    pub profile: Profile,
    /// force capacity 64 (no TooManyHeaders interference)
    pub generous_cap: bool,
    /// restrict configs with this mask (bits outside are cleared)
    pub cfg_mask: u8,
    /// always use the config-taking entry (so that cfg is honoured)
    pub cfg_entry_only: bool,
}

pub const ALL_KINDS: [Kind; 4] = [Kind::Request, Kind::Response, Kind::Headers, Kind::Chunk];
pub const MSG_KINDS: [Kind; 3] = [Kind::Request, Kind::Response, Kind::Headers];
pub const RR_KINDS: [Kind; 2] = [Kind::Request, Kind::Response];

/// G1 case: kind, config, entry, capacity, placement, buffer — all from choice bytes.
pub fn g1_case(u: &mut Choice, sub: &'static str, g: &GenSpec) -> CaseRec {
    let kind = *u.pick(g.kinds);
    let mut cfg = pick_cfg(u) & g.cfg_mask;
    let entry = if g.cfg_entry_only { Entry::cfg_entry(kind) } else { pick_entry(u, kind, &mut cfg) };
    if !entry.takes_cfg() {
        cfg = 0;
    }
    let place = pick_place(u);
    let capsel_first = u.byte(); // reserve a byte so that the buffer does not depend on cap choice order
    let (buf, nlines) = gen::message(u, kind, &g.profile);
    let mut cu = Choice::new(std::slice::from_ref(&capsel_first));
    let cap = if g.generous_cap || kind == Kind::Chunk { 64.max(nlines + 4) } else { pick_cap(&mut cu, nlines) };
    let mut rec = CaseRec::new(sub, entry, cfg, cap, buf);
    rec.place = place;
    rec
}

pub fn run_rec(ctx: &mut Ctx, rec: &CaseRec) -> Obs {
    ctx.run(&Spec {
        entry: rec.entry,
        cfg: rec.cfg,
        cap: rec.cap,
        place: rec.place,
        hdr_at_end: true,
        prefill: Prefill::Empty,
        buf: &rec.buf,
    })
}

pub fn run_model(rec: &CaseRec) -> MOut {
    model::model(rec.kind(), &rec.buf, rec.cfg, rec.cap)
}

/// Compare real vs. model for `what`; returns the pair for non-triviality accounting.
pub fn model_compare(
    prop: &'static str,
    ctx: &mut Ctx,
    rec: &CaseRec,
    what: u32,
) -> Result<(Obs, MOut), Violation> {
    let obs = run_rec(ctx, rec);
    let m = run_model(rec);
    match cmp::compare(&obs, &m, what) {
        Ok(()) => Ok((obs, m)),
        Err(mm) => Err(Violation::new(
            format!("{}/{}", prop_short(prop), mm.sig),
            format!("{} [{} cfg={:#04x} cap={}]", mm.detail, rec.entry.name(), rec.cfg, rec.cap),
            rec,
        )),
    }
}

pub fn prop_short(p: &'static str) -> &'static str {
    p
}

/// A parser panic under a property other than C01 means "could not decide".
pub fn is_panic(obs: &Obs) -> bool {
    matches!(obs.st, St::Panic(_))
}

pub fn status_hist_key(st: &St) -> &'static str {
    match st {
        St::Complete(_) => "real:Complete",
        St::Partial => "real:Partial",
        St::Err(crate::real::ErrKind::HeaderName) => "real:Err(HeaderName)",
        St::Err(crate::real::ErrKind::HeaderValue) => "real:Err(HeaderValue)",
        St::Err(crate::real::ErrKind::NewLine) => "real:Err(NewLine)",
        St::Err(crate::real::ErrKind::Status) => "real:Err(Status)",
        St::Err(crate::real::ErrKind::Token) => "real:Err(Token)",
        St::Err(crate::real::ErrKind::TooManyHeaders) => "real:Err(TooManyHeaders)",
        St::Err(crate::real::ErrKind::Version) => "real:Err(Version)",
        St::Err(crate::real::ErrKind::InvalidChunkSize) => "real:Err(InvalidChunkSize)",
        St::Panic(_) => "real:PANIC",
    }
}

pub fn kind_hist_key(k: Kind) -> &'static str {
    match k {
        Kind::Request => "kind:request",
        Kind::Response => "kind:response",
        Kind::Headers => "kind:headers",
        Kind::Chunk => "kind:chunk",
    }
}

pub const REQ_LINE: &[u8] = b"GET / HTTP/1.1\r\n";
pub const RESP_LINE: &[u8] = b"HTTP/1.1 200 OK\r\n";

/// Wrap a header block for an entry kind.
pub fn with_start_line(kind: Kind, block: &[u8]) -> Vec<u8> {
    let mut v = Vec::with_capacity(block.len() + 20);
    match kind {
        Kind::Request => v.extend_from_slice(REQ_LINE),
        Kind::Response => v.extend_from_slice(RESP_LINE),
        _ => {}
    }
    v.extend_from_slice(block);
    v
}

pub fn account_std(r: &Runner, l: &mut Local, rec: &CaseRec, obs: &Obs, nontrivial: bool, note: &str) {
    if l.counting {
        l.bump(status_hist_key(&obs.st));
        l.bump(kind_hist_key(rec.kind()));
    }
    r.account(l, rec, nontrivial, note);
}

/// the HTTP/2 connection preface and a few other well-known literals: fixed bases for
/// sweeps (magic-literal branches are invisible to grammar-derived generation)
pub const LITERAL_BASES: [(&[u8], Entry); 6] = [
    (b"PRI * HTTP/2.0\r\n\r\nSM\r\n\r\n", Entry::ReqParse),
    (b"HEAD / HTTP/1.1\r\nHost: a\r\n\r\n", Entry::ReqParse),
    (b"CONNECT example.com:443 HTTP/1.1\r\nHost: example.com:443\r\n\r\n", Entry::ReqParse),
    (b"PUT /x HTTP/1.1\r\nContent-Length: 0\r\nTransfer-Encoding: chunked\r\n\r\n", Entry::ReqParse),
    (b"HTTP/1.1 100 Continue\r\n\r\n", Entry::RespParse),
    (b"HTTP/1.1 101 Switching Protocols\r\nUpgrade: websocket\r\nConnection: Upgrade\r\n\r\n", Entry::RespParse),
];

/// Dictionary sweep: every literal of the source under test (gen::dict) written over / inserted
/// at every position of the first line of a few bases. Returns (number of cases, builder).
pub const DICT_BASES: [(&[u8], Entry); 5] = [
    (b"GET /index HTTP/1.1\r\nHost: a\r\n\r\n", Entry::ReqParse),
    (b"HTTP/1.1 200 OK\r\nServer: a\r\n\r\n", Entry::RespParse),
    (b"HTTP/1.0 404\r\n\r\n", Entry::RespParse),
    (b"Host: example.com\r\nAccept: text/html\r\n\r\n", Entry::Headers),
    (b"1a;ext=val\r\n", Entry::Chunk),
];

pub fn dict_phase<F>(r: &Runner, sub: &'static str, accept: &(dyn Fn(Entry, u8) -> bool + Sync), f: F)
where
    F: Fn(&Runner, &mut Ctx, &mut Local, &CaseRec) -> Result<(), Violation> + Sync,
{
    let d = crate::gen::dict();
    if d.is_empty() {
        return;
    }
    const POS: u64 = 24;
    let total = d.len() as u64 * DICT_BASES.len() as u64 * POS * 3;
    r.par_enum(&format!("auto-dictionary: {} literals of the source under test × 5 bases × first 24 positions × {{overwrite, insert, overwrite+truncate}}", d.len()), total, |ctx, l, idx| {
        let mut x = idx;
        let mode = x % 3;
        x /= 3;
        let pos = (x % POS) as usize;
        x /= POS;
        let (base, entry) = DICT_BASES[(x % DICT_BASES.len() as u64) as usize];
        let tok = &d[(x / DICT_BASES.len() as u64) as usize];
        if !accept(entry, 0) || pos > base.len() {
            return Ok(());
        }
        let mut buf = base.to_vec();
        match mode {
            1 => {
                for (i, c) in tok.iter().enumerate() {
                    buf.insert(pos + i, *c);
                }
            }
            _ => {
                for (i, c) in tok.iter().enumerate() {
                    if pos + i < buf.len() {
                        buf[pos + i] = *c;
                    } else {
                        buf.push(*c);
                    }
                }
                if mode == 2 {
                    buf.truncate(pos + tok.len());
                }
            }
        }
        let rec = CaseRec::new(sub, entry, 0, 8, buf);
        f(r, ctx, l, &rec)
    });
}

/// G5 scale families at moderate sizes for the *semantic* checks: (family, size, variant)
/// -> case. `accept(entry, cfg)` filters families to the property's domain.
pub fn families_phase<F>(r: &Runner, sub: &'static str, accept: &(dyn Fn(Entry, u8) -> bool + Sync), f: F)
where
    F: Fn(&Runner, &mut Ctx, &mut Local, &CaseRec) -> Result<(), Violation> + Sync,
{
    // the two large sizes put every countable thing of a family (start-line bytes, leading
    // lines, field bytes, whitespace runs, header lines) beyond 2^16
    const SIZES: [usize; 9] = [40, 100, 180, 300, 700, 1500, 4200, 66_000, 131_500];
    let vars = 3u64;
    // the prefix-closure checks (C02, C11) parse dozens of prefixes (and completions) of every
    // case: they stop at 4 KiB here (C02 has its own 140 KiB tail phase)
    let nsizes = if sub == "prefix" || sub == "partial-prefixes" { 7 } else { SIZES.len() };
    let total = crate::gen::N_FAMILIES as u64 * nsizes as u64 * vars;
    r.par_enum("scale families at 40 B..4 KiB, 66 000 B and 131 500 B × {whole, truncated, late error}: long fields, whitespace runs, many headers, folds, ignored lines", total, |ctx, l, idx| {
        let var = idx % vars;
        let x = idx / vars;
        let fam = (x % crate::gen::N_FAMILIES as u64) as usize;
        let size = SIZES[(x / crate::gen::N_FAMILIES as u64) as usize];
        let (entry, cfg, mut buf) = crate::gen::family(fam, size);
        if !accept(entry, cfg) {
            return Ok(());
        }
        let mut rng = crate::engine::Lcg(crate::engine::mix(idx ^ 0x5eed));
        match var {
            1 => {
                let k = rng.below(buf.len() + 1);
                buf.truncate(k);
            }
            2 => {
                let k = buf.len() - 1 - rng.below(buf.len().min(60));
                buf[k] = [0u8, 0x7f, b'\r', 0x01, b'\t', 0x80][rng.below(6)];
            }
            _ => {}
        }
        let lines = buf.iter().filter(|&&c| c == b'\n').count();
        let rec = CaseRec::new(sub, entry, cfg, lines + 8, buf);
        f(r, ctx, l, &rec)
    });
}

/// Model self-test + repository test inputs. (1) Every expectation extracted from the
/// repository's own tests (`crate::selftest`) is compared with the *model*; a disagreement
/// makes the run inconclusive (exit 2: the oracle cannot be trusted), never a violation.
/// (2) The same buffers are run through `f` under all 128 configurations, several
/// capacities and every prefix.
pub fn selftest_phase<F>(r: &Runner, sub: &'static str, accept: &(dyn Fn(Entry, u8) -> bool + Sync), f: F)
where
    F: Fn(&Runner, &mut Ctx, &mut Local, &CaseRec) -> Result<(), Violation> + Sync,
{
    let ex = crate::selftest::repo_tests();
    let mut compared = 0usize;
    let mut cases = 0usize;
    let entry_of = |k: Kind| match k {
        Kind::Request => Entry::ReqCfg,
        Kind::Response => Entry::RespCfg,
        Kind::Headers => Entry::Headers,
        Kind::Chunk => Entry::Chunk,
    };
    let mine: Vec<&crate::selftest::TExp> = ex.cases.iter().filter(|c| accept(entry_of(c.kind.unwrap()), 0)).collect();
    for c in mine.iter().filter(|_| !r.alt_pass()) {
        match crate::selftest::model_agrees(c) {
            Ok(n) => {
                compared += n;
                cases += 1;
            }
            Err(e) => r.inconclusive.lock().unwrap().push(format!("model self-test: {}", e)),
        }
    }
    if !r.alt_pass() {
    r.note(format!(
        "model self-test: {} expectations ({} assertions) extracted from the repository's tests agree with the model ({} test functions seen, {} skipped because they compute their input, {} statements not understood; all kinds: {} cases / {} assertions)",
        cases, compared, ex.tests_seen, ex.tests_skipped_computed_input, ex.statements_skipped, ex.cases.len(), ex.assertions_used
    ));
    }
    if mine.is_empty() {
        return;
    }
    // (2) the test inputs as generated-check bases
    const CAPS: [usize; 5] = [usize::MAX, 0, 1, 2, 64];
    let mut offs = vec![0u64];
    for c in &mine {
        let plen = if c.buf.len() <= 400 { c.buf.len() as u64 + 1 } else { 1 };
        offs.push(offs.last().unwrap() + 128 * (CAPS.len() as u64 - 1 + plen));
    }
    r.par_enum(&format!("inputs of the repository's own tests ({} buffers) × 128 configurations × {{capacity of the test with every prefix, capacities 0/1/2/64 whole}}", mine.len()), *offs.last().unwrap(), |ctx, l, idx| {
        let bi = offs.partition_point(|&o| o <= idx) - 1;
        let c = mine[bi];
        let x = idx - offs[bi];
        let cfg = (x % 128) as u8;
        let y = x / 128;
        let kind = c.kind.unwrap();
        let (cap, buf) = if (y as usize) < CAPS.len() - 1 {
            (CAPS[y as usize + 1], c.buf.clone())
        } else {
            let k = (y as usize) - (CAPS.len() - 1);
            (c.cap, c.buf[..c.buf.len() - k.min(c.buf.len())].to_vec())
        };
        let entry = match kind {
            Kind::Request => if cfg == 0 && idx % 2 == 0 { Entry::ReqParse } else { Entry::ReqCfg },
            Kind::Response => if cfg == 0 && idx % 2 == 0 { Entry::RespParse } else { Entry::RespCfg },
            k => {
                if cfg != 0 {
                    return Ok(());
                }
                entry_of(k)
            }
        };
        if !accept(entry, cfg) {
            return Ok(());
        }
        let rec = CaseRec::new(sub, entry, cfg, cap, buf);
        f(r, ctx, l, &rec)
    });
}

pub const CHUNK_BASES: [&[u8]; 9] = [
    b"1f\r\n",
    b"0\r\n\r\n",
    b"1a;ext=val\r\n",
    b"FFFFFFFFFFFFFFFF\r\n",
    b"12 \t;x y\r\n",
    b"00000000000000001\r\n",
    b"aBcDeF09 \r\nrest",
    b"7;name=\"caf\xc3\xa9 au lait, s'il vous pla\xc3\xaet\"\r\n",
    b"5;abcdefghijklmnopqrstuvwxyz0123456789\xe9\r\nhello",
];

/// chunk-size lines for the model-free checks: 256 values at every position of 9 bases
/// (overwrite and insert), and every string of length <= 4 over a 20-symbol alphabet
/// followed by each of 4 tails.
pub fn chunk_sweep_phase<F>(r: &Runner, sub: &'static str, f: F)
where
    F: Fn(&Runner, &mut Ctx, &mut Local, &CaseRec) -> Result<(), Violation> + Sync,
{
    let mut offs = vec![0u64];
    for b in CHUNK_BASES.iter() {
        offs.push(offs.last().unwrap() + (b.len() as u64 + 1) * 256 * 2);
    }
    r.par_enum("chunk-size lines: 256 values at every position of 9 bases × {overwrite, insert}", *offs.last().unwrap(), |ctx, l, idx| {
        let bi = offs.partition_point(|&o| o <= idx) - 1;
        let base = CHUNK_BASES[bi];
        let x = idx - offs[bi];
        let v = (x % 256) as u8;
        let ins = (x / 256) % 2 == 1;
        let pos = (x / 512) as usize;
        let mut buf = base.to_vec();
        if ins {
            buf.insert(pos, v);
        } else if pos < buf.len() {
            buf[pos] = v;
        } else {
            buf.push(v);
        }
        let rec = CaseRec::new(sub, Entry::Chunk, 0, 0, buf);
        f(r, ctx, l, &rec)
    });
    const ALPHA: [&[u8]; 20] = [b"0", b"1", b"9", b"a", b"f", b"F", b"g", b"x", b"+", b"-", b" ", b"\t", b";", b"\r", b"\n", b"\0", b"\x80", b".", b"#", b"G"];
    const TAILS: [&[u8]; 4] = [b"", b"\r\n", b";e\r\n", b"0\r\n"];
    let n = crate::gen::count_upto(ALPHA.len() as u64, 4);
    r.par_enum("chunk-size strings over a 20-symbol alphabet (incl. '+', '-', 'x', '.'), length ≤4, × 4 tails", n * TAILS.len() as u64, |ctx, l, idx| {
        let mut buf = Vec::with_capacity(12);
        crate::gen::nth_string(&ALPHA, idx / TAILS.len() as u64, &mut buf);
        buf.extend_from_slice(TAILS[(idx % TAILS.len() as u64) as usize]);
        let rec = CaseRec::new(sub, Entry::Chunk, 0, 0, buf);
        f(r, ctx, l, &rec)
    });
}

/// Every *repeatable* element of the grammar repeated exactly k times for k at the
/// narrow-counter boundaries 2^8 and 2^16 (a `u8`/`u16` counter, a staged fast path or a
/// table index that wraps shows exactly there), each in a message that is otherwise
/// minimal and valid under the configuration given.
pub const REPEAT_KS: [usize; 8] = [254, 255, 256, 257, 65_534, 65_535, 65_536, 65_537];
pub const N_REPEAT_ELEMS: usize = 22;

pub fn repeat_case(elem: usize, k: usize) -> (Entry, u8, Vec<u8>, &'static str) {
    use crate::real::*;
    let rep = |unit: &[u8]| -> Vec<u8> {
        let mut v = Vec::with_capacity(unit.len() * k);
        for _ in 0..k {
            v.extend_from_slice(unit);
        }
        v
    };
    let cat = |parts: &[&[u8]]| parts.concat();
    match elem % N_REPEAT_ELEMS {
        0 => (Entry::ReqParse, 0, cat(&[&rep(b"\r\n"), b"GET / HTTP/1.1\r\nA: b\r\n\r\n"]), "leading CRLF before a request"),
        1 => (Entry::RespParse, 0, cat(&[&rep(b"\n"), b"HTTP/1.1 200 OK\r\nA: b\r\n\r\n"]), "leading LF before a response"),
        2 => (Entry::ReqCfg, C_MULTISPACE_REQ, cat(&[b"GET", &rep(b" "), b"/ HTTP/1.1\r\nA: b\r\n\r\n"]), "SP between method and target (multi-space option)"),
        3 => (Entry::ReqCfg, C_MULTISPACE_REQ, cat(&[b"GET /", &rep(b" "), b"HTTP/1.1\r\nA: b\r\n\r\n"]), "SP between target and version (multi-space option)"),
        4 => (Entry::RespCfg, C_MULTISPACE_RESP, cat(&[b"HTTP/1.1", &rep(b" "), b"200 OK\r\nA: b\r\n\r\n"]), "SP after the version (multi-space option)"),
        5 => (Entry::RespCfg, C_MULTISPACE_RESP, cat(&[b"HTTP/1.1 200", &rep(b" "), b"OK\r\nA: b\r\n\r\n"]), "SP after the code (multi-space option)"),
        6 => (Entry::RespParse, 0, cat(&[b"HTTP/1.1 200 ", &rep(b" "), b"OK\r\nA: b\r\n\r\n"]), "SP at the start of the reason (default config: part of the reason)"),
        7 => (Entry::Headers, 0, cat(&[b"A:", &rep(b" "), b"b\r\nC: d\r\n\r\n"]), "SP between colon and value"),
        8 => (Entry::Headers, 0, cat(&[b"A:", &rep(b"\t"), b"b\r\nC: d\r\n\r\n"]), "HTAB between colon and value"),
        9 => (Entry::Headers, 0, cat(&[b"A: b", &rep(b" \t"), b"\r\nC: d\r\n\r\n"]), "trailing SP HTAB after the value"),
        10 => (Entry::Headers, 0, cat(&[b"A: b", &rep(b" "), b"c\r\nC: d\r\n\r\n"]), "SP inside the value"),
        11 => (Entry::RespCfg, C_SPACES_AFTER_NAME, cat(&[b"HTTP/1.1 200 OK\r\nA", &rep(b" "), b": b\r\nC: d\r\n\r\n"]), "SP between name and colon (option)"),
        12 => (Entry::RespCfg, C_MULTILINE, cat(&[b"HTTP/1.1 200 OK\r\nA: b", &rep(b"\r\n c"), b"\r\nC: d\r\n\r\n"]), "continuation lines of one folded value"),
        13 => (Entry::RespCfg, C_MULTILINE, cat(&[b"HTTP/1.1 200 OK\r\nA: b", &rep(b"\r\n "), b"\r\nC: d\r\n\r\n"]), "whitespace-only continuation lines after a value"),
        14 => (Entry::RespCfg, C_MULTILINE, cat(&[b"HTTP/1.1 200 OK\r\nA:", &rep(b"\r\n\t"), b"\r\n b\r\nC: d\r\n\r\n"]), "whitespace-only continuation lines before the value"),
        15 => (Entry::ReqCfg, C_IGNORE_REQ, cat(&[b"GET / HTTP/1.1\r\n", &rep(b"bad\n"), b"A: b\r\n\r\n"]), "ignored invalid lines (request)"),
        16 => (Entry::RespCfg, C_IGNORE_RESP | C_SPACE_BEFORE_FIRST, cat(&[b"HTTP/1.1 200 OK\r\n", &rep(b" x y\r\n"), b"A: b\r\n\r\n"]), "ignored whitespace-led lines before the first header"),
        17 => (Entry::RespCfg, C_SPACE_BEFORE_FIRST, cat(&[b"HTTP/1.1 200 OK\r\n", &rep(b" "), b"A: b\r\nC: d\r\n\r\n"]), "SP before the first header name (option)"),
        18 => (Entry::Chunk, 0, cat(&[b"1f", &rep(b" "), b"\r\n"]), "SP after the chunk size"),
        19 => (Entry::Chunk, 0, cat(&[b"1f;", &rep(b"x"), b"\r\nrest"]), "chunk extension bytes"),
        20 => (Entry::Chunk, 0, cat(&[b"1f;", &rep(b";"), b"\r\n"]), "semicolons in a chunk extension"),
        _ => (Entry::ReqParse, 0, cat(&[b"GET /", &rep(b"\xc3\xa9"), b" HTTP/1.1\r\nA: b\r\n\r\n"]), "two-byte UTF-8 characters in the target"),
    }
}

/// A special byte at one lane of every P-byte block (P = 8, 16, 32), repeated exactly k times
/// (k around 2^8 and 2^9): per-lane counters and per-lane folds of word-at-a-time code wrap or
/// cancel exactly there. Fields: target (0xFF: invalid UTF-8, must be rejected; 0xC3 0xA9 pairs
/// are elsewhere), header value and reason (HTAB / obs-text: legal; DEL: illegal).
pub fn lane_count_phase<F>(r: &Runner, sub: &'static str, accept: &(dyn Fn(Entry, u8) -> bool + Sync), f: F)
where
    F: Fn(&Runner, &mut Ctx, &mut Local, &CaseRec) -> Result<(), Violation> + Sync,
{
    if sub == "prefix" || sub == "partial-prefixes" {
        return;
    }
    const KS: [usize; 6] = [255, 256, 257, 511, 512, 513];
    const SPECIALS: [u8; 5] = [0xff, 0x80, 0x09, 0x7f, b'_'];
    // (period, lane) pairs: every lane of an 8-byte word, a few of 16 / 32
    let mut pl: Vec<(usize, usize)> = (0..8).map(|l| (8usize, l)).collect();
    pl.extend_from_slice(&[(16, 0), (16, 9), (16, 15), (32, 0), (32, 17), (32, 31)]);
    let total = (pl.len() * KS.len() * SPECIALS.len() * 3) as u64;
    r.par_enum("a special byte (0xFF, 0x80, HTAB, DEL, '_') at one lane of every 8 / 16 / 32-byte block, repeated exactly k times for k in {255,256,257,511,512,513}, in a target, a header value and a reason", total, |ctx, l, idx| {
        let mut x = idx as usize;
        let field = x % 3;
        x /= 3;
        let sp = SPECIALS[x % SPECIALS.len()];
        x /= SPECIALS.len();
        let k = KS[x % KS.len()];
        let (p, lane) = pl[x / KS.len()];
        let mut body = Vec::with_capacity(p * k + 8);
        for _ in 0..k {
            for i in 0..p {
                body.push(if i == lane { sp } else { b'a' + (i % 7) as u8 });
            }
        }
        let (entry, buf): (Entry, Vec<u8>) = match field {
            0 => (Entry::ReqParse, [&b"GET /"[..], &body, b" HTTP/1.1\r\nA: b\r\n\r\n"].concat()),
            1 => (Entry::Headers, [&b"N: v"[..], &body, b"\r\nA: b\r\n\r\n"].concat()),
            _ => (Entry::RespParse, [&b"HTTP/1.1 200 r"[..], &body, b"\r\nA: b\r\n\r\n"].concat()),
        };
        if !accept(entry, 0) {
            return Ok(());
        }
        let rec = CaseRec::new(sub, entry, 0, 8, buf);
        f(r, ctx, l, &rec)
    });
}

pub fn repeat_boundary_phase<F>(r: &Runner, sub: &'static str, accept: &(dyn Fn(Entry, u8) -> bool + Sync), f: F)
where
    F: Fn(&Runner, &mut Ctx, &mut Local, &CaseRec) -> Result<(), Violation> + Sync,
{
    lane_count_phase(r, sub, accept, &f);
    let prefix_check = sub == "prefix" || sub == "partial-prefixes";
    let nks = if prefix_check { 4 } else { REPEAT_KS.len() };
    let total = (N_REPEAT_ELEMS * nks * 2) as u64;
    r.par_enum("every repeatable element (leading lines, delimiter SP runs, OWS, inner / trailing whitespace, name-colon whitespace, folds, ignored lines, chunk whitespace / extension, multi-byte target characters) repeated exactly k times, k in {254..257, 65534..65537} × {whole, cut inside the run}", total, |ctx, l, idx| {
        let cut = idx % 2 == 1;
        let x = idx / 2;
        let elem = (x % N_REPEAT_ELEMS as u64) as usize;
        let k = REPEAT_KS[(x / N_REPEAT_ELEMS as u64) as usize];
        let (entry, cfg, mut buf, _what) = repeat_case(elem, k);
        if !accept(entry, cfg) {
            return Ok(());
        }
        if cut {
            // end the buffer inside the repeated run (Partial with the counter mid-way)
            let n = buf.len();
            buf.truncate(n - n / 3);
        }
        let lines = if buf.len() < 5000 { 16 } else { buf.iter().filter(|&&c| c == b'\n').count() + 8 };
        let rec = CaseRec::new(sub, entry, cfg, lines.min(70_000).max(8), buf);
        f(r, ctx, l, &rec)
    });
}

/// The byte that follows a run of k = 1..=9 delimiter / padding blanks, all 256 values, for
/// every place where such a run is legal (possibly only under an option): word-at-a-time or
/// carry-based space skippers go wrong exactly at the first non-blank byte after the run.
pub fn after_blank_run_phase<F>(r: &Runner, sub: &'static str, accept: &(dyn Fn(Entry, u8) -> bool + Sync), f: F)
where
    F: Fn(&Runner, &mut Ctx, &mut Local, &CaseRec) -> Result<(), Violation> + Sync,
{
    use crate::real::*;
    const N_ELEMS: u64 = 8;
    const REPS: [usize; 4] = [1, 8, 9, 17];
    let total = N_ELEMS * 9 * 256 * 2 * 2 * REPS.len() as u64;
    r.par_enum("all 256 values of the byte (alone or repeated 8, 9, 17 times) after a run of 1..=9 blanks: both request-line delimiters, after the version, after the status code (start of the reason), after the colon (SP and HTAB runs), inside a value, before the first header name × option off/on × {short, long} tail", total, |ctx, l, idx| {
        let mut x = idx;
        let long_tail = x % 2 == 1;
        x /= 2;
        let opt_on = x % 2 == 1;
        x /= 2;
        // the byte after the run, alone or repeated (a word-at-a-time skipper that compares
        // the bytes of a word with each other is fooled by a word of identical bytes)
        let rep = REPS[(x % REPS.len() as u64) as usize];
        x /= REPS.len() as u64;
        let vb = (x % 256) as u8;
        let v: &[u8] = &vec![vb; rep];
        x /= 256;
        let k = (x % 9) as usize + 1;
        let elem = x / 9;
        let sp = vec![b' '; k];
        let tb = vec![b'\t'; k];
        let tail: &[u8] = if long_tail { b"done and some more text that is long enough\r\nA: b\r\n\r\n" } else { b"d\r\n\r\n" };
        let (entry, opt, buf): (Entry, u8, Vec<u8>) = match elem {
            0 => (Entry::RespCfg, C_MULTISPACE_RESP, [&b"HTTP/1.1 200"[..], &sp, v, tail].concat()),
            1 => (Entry::RespCfg, C_MULTISPACE_RESP, [&b"HTTP/1.1"[..], &sp, v, b"00 OK\r\n\r\n"].concat()),
            2 => (Entry::ReqCfg, C_MULTISPACE_REQ, [&b"GET"[..], &sp, v, b"path HTTP/1.1\r\n\r\n"].concat()),
            3 => (Entry::ReqCfg, C_MULTISPACE_REQ, [&b"GET /path"[..], &sp, v, b"TTP/1.1\r\n\r\n"].concat()),
            4 => (Entry::RespCfg, C_SPACES_AFTER_NAME, [&b"HTTP/1.1 200 OK\r\nName: "[..], &sp, v, tail].concat()),
            5 => (Entry::RespCfg, C_SPACES_AFTER_NAME, [&b"HTTP/1.1 200 OK\r\nName:"[..], &tb, v, tail].concat()),
            6 => (Entry::RespCfg, C_MULTILINE, [&b"HTTP/1.1 200 OK\r\nName: v"[..], &sp, v, tail].concat()),
            _ => (Entry::RespCfg, C_SPACE_BEFORE_FIRST, [&b"HTTP/1.1 200 OK\r\n"[..], &sp, v, b"ame: v\r\n\r\n"].concat()),
        };
        let cfg = if opt_on { opt } else { 0 };
        if !accept(entry, cfg) {
            return Ok(());
        }
        let rec = CaseRec::new(sub, entry, cfg, 8, buf);
        f(r, ctx, l, &rec)
    });
}

/// Two adjacent bytes: first from the 24 interesting values, second all 256, at every offset
/// 0..=9 inside each kind of field (so that both bytes fall into one 8-byte word at every
/// phase, and across a word boundary). Carry / borrow tricks of word-at-a-time code
/// misjudge a byte because of its *neighbour*; single-byte sweeps cannot see that.
pub fn pair_phase<F>(r: &Runner, sub: &'static str, accept: &(dyn Fn(Entry, u8) -> bool + Sync), f: F)
where
    F: Fn(&Runner, &mut Ctx, &mut Local, &CaseRec) -> Result<(), Violation> + Sync,
{
    use crate::real::*;
    const N_FIELDS: u64 = 7;
    let total = N_FIELDS * 10 * 24 * 256 * 2;
    r.par_enum("adjacent byte pairs (24 interesting values × all 256 values) at offsets 0..=9 of 7 fields (method, target, reason, header name, header value, folded value, chunk extension) × {short, long} tail", total, |ctx, l, idx| {
        let mut x = idx;
        let long_tail = x % 2 == 1;
        x /= 2;
        let b2 = (x % 256) as u8;
        x /= 256;
        let b1 = crate::gen::INTERESTING[(x % 24) as usize];
        x /= 24;
        let off = (x % 10) as usize;
        let field = x / 10;
        let pre = vec![b'a'; off];
        let post: &[u8] = if long_tail { b"bcdefghijklmnopqrstuvwxyz0123456789" } else { b"z" };
        let (entry, cfg, buf): (Entry, u8, Vec<u8>) = match field {
            0 => (Entry::ReqParse, 0, [&pre[..], &[b1, b2], post, b" / HTTP/1.1\r\nA: b\r\n\r\n"].concat()),
            1 => (Entry::ReqParse, 0, [&b"GET /"[..], &pre, &[b1, b2], post, b" HTTP/1.1\r\nA: b\r\n\r\n"].concat()),
            2 => (Entry::RespParse, 0, [&b"HTTP/1.1 200 "[..], &pre, &[b1, b2], post, b"\r\nA: b\r\n\r\n"].concat()),
            3 => (Entry::Headers, 0, [&pre[..], &[b1, b2], post, b": v\r\nA: b\r\n\r\n"].concat()),
            4 => (Entry::Headers, 0, [&b"N: "[..], &pre, &[b1, b2], post, b"\r\nA: b\r\n\r\n"].concat()),
            5 => (Entry::RespCfg, C_MULTILINE, [&b"HTTP/1.1 200 OK\r\nN: v\r\n "[..], &pre, &[b1, b2], post, b"\r\nA: b\r\n\r\n"].concat()),
            _ => (Entry::Chunk, 0, [&b"1f;"[..], &pre, &[b1, b2], post, b"\r\nrest"].concat()),
        };
        if !accept(entry, cfg) {
            return Ok(());
        }
        let rec = CaseRec::new(sub, entry, cfg, 8, buf);
        f(r, ctx, l, &rec)
    });
}

/// Dictionary tokens (literals of the source under test) in *relations*: the same token as
/// the name of two consecutive header lines (equal and different values, varied case), as
/// two equal values, and as a name with whitespace before the colon. A special case keyed
/// on a particular header name and on a relation between two lines is invisible to a
/// grammar and to single-token splicing.
pub fn dict_dup_phase<F>(r: &Runner, sub: &'static str, accept: &(dyn Fn(Entry, u8) -> bool + Sync), f: F)
where
    F: Fn(&Runner, &mut Ctx, &mut Local, &CaseRec) -> Result<(), Violation> + Sync,
{
    use crate::real::*;
    let d: Vec<&Vec<u8>> = crate::gen::dict().iter().filter(|t| t.len() >= 3 && t.iter().all(|&b| crate::model::is_tchar(b))).collect();
    if d.is_empty() {
        return;
    }
    const SHAPES: u64 = 8;
    const ENTRIES: [(Entry, u8); 5] = [(Entry::Headers, 0), (Entry::ReqParse, 0), (Entry::RespParse, 0), (Entry::RespCfg, C_SPACES_AFTER_NAME | C_IGNORE_RESP), (Entry::ReqCfg, C_IGNORE_REQ | C_SPACE_BEFORE_FIRST)];
    let total = d.len() as u64 * SHAPES * ENTRIES.len() as u64 * 3;
    r.par_enum(&format!("{} tchar literals of the source under test as header names / values in relations: the same name on two consecutive lines (equal / different values, three spellings), equal values, whitespace before the colon × 5 entry/config sets × capacity {{1, 2, 8}}", d.len()), total, |ctx, l, idx| {
        let mut x = idx;
        let cap = [1usize, 2, 8][(x % 3) as usize];
        x /= 3;
        let (entry, cfg) = ENTRIES[(x % ENTRIES.len() as u64) as usize];
        x /= ENTRIES.len() as u64;
        let shape = x % SHAPES;
        let tok = d[(x / SHAPES) as usize];
        if !accept(entry, cfg) {
            return Ok(());
        }
        let upper: Vec<u8> = tok.to_ascii_uppercase();
        let lower: Vec<u8> = tok.to_ascii_lowercase();
        // Title-Case: first letter and letters after '-' upper
        let mut title = lower.clone();
        let mut up = true;
        for c in title.iter_mut() {
            if up {
                *c = c.to_ascii_uppercase();
            }
            up = *c == b'-';
        }
        let line = |n: &[u8], v: &[u8]| [n, b": ", v, b"\r\n"].concat();
        let block: Vec<u8> = match shape {
            0 => [line(tok, b"12"), line(tok, b"12"), b"X: y\r\n\r\n".to_vec()].concat(),
            1 => [line(&title, b"12"), line(&title, b"12"), b"X: y\r\n\r\n".to_vec()].concat(),
            2 => [line(&lower, b"12"), line(&upper, b"12"), b"X: y\r\n\r\n".to_vec()].concat(),
            3 => [line(&title, b"12"), line(&title, b"13"), b"X: y\r\n\r\n".to_vec()].concat(),
            4 => [line(b"A", tok), line(b"B", tok), b"\r\n".to_vec()].concat(),
            5 => [&title[..], b" : chunked\r\nX: y\r\n\r\n"].concat(),
            6 => [line(b"A", b"b"), line(&title, b"0"), line(&title, b"0"), line(&title, b"0"), b"\r\n".to_vec()].concat(),
            _ => [line(&title, tok), line(&title, tok), b"\r\n".to_vec()].concat(),
        };
        let buf = if entry.kind() == Kind::Headers { block } else { with_start_line(entry.kind(), &block) };
        let rec = CaseRec::new(sub, entry, cfg, cap, buf);
        f(r, ctx, l, &rec)
    });
}

/// Long request targets (around 1 KiB, 2 KiB, 4 KiB, 8 KiB, 64 KiB) with one invalid-UTF-8 /
/// out-of-class byte at the start, in the middle or at one of the last 9 positions, the
/// buffer whole or cut at the end of the target / after the SP / after the version / right
/// after the request line / inside the first header: size-gated fast paths for long targets
/// (deferred or word-wise UTF-8 validation) are invisible to sweeps over short bases.
pub fn long_target_phase<F>(r: &Runner, sub: &'static str, accept: &(dyn Fn(Entry, u8) -> bool + Sync), f: F)
where
    F: Fn(&Runner, &mut Ctx, &mut Local, &CaseRec) -> Result<(), Violation> + Sync,
{
    if !accept(Entry::ReqParse, 0) {
        return;
    }
    const LENS: [usize; 17] = [511, 512, 1000, 1023, 1024, 1025, 1031, 2047, 2048, 2049, 4095, 4096, 4097, 8191, 8193, 65_535, 65_537];
    const BAD: [(&[u8], bool); 6] = [(b"", true), (b"\xff", false), (b"\x80", false), (b"\xc3", false), (b"\x7f", false), (b"\xc3\xa9", true)];
    const NPOS: u64 = 12;
    const NCUT: u64 = 7;
    let total = LENS.len() as u64 * BAD.len() as u64 * NPOS * NCUT * 2;
    r.par_enum("request targets of 17 lengths around 512 B..64 KiB × {valid, 0xFF, 0x80, lone 0xC3, DEL, valid 2-byte char} at 12 positions (start, middle, last 9, after a multi-byte run) × 7 cuts (whole, end of target, after SP, after version, after the request line, inside the first header, before the last byte) × {ASCII, multi-byte} filler", total, |ctx, l, idx| {
        let mut x = idx;
        let mb = x % 2 == 1;
        x /= 2;
        let cut = x % NCUT;
        x /= NCUT;
        let pk = (x % NPOS) as usize;
        x /= NPOS;
        let (bad, _valid) = BAD[(x % BAD.len() as u64) as usize];
        let len = LENS[(x / BAD.len() as u64) as usize];
        // filler: ASCII, or ASCII with a valid 2-byte character every 16 bytes
        let mut t: Vec<u8> = Vec::with_capacity(len + 4);
        t.push(b'/');
        while t.len() < len {
            if mb && t.len() % 16 == 5 && t.len() + 2 <= len {
                t.extend_from_slice(b"\xc3\xa9");
            } else {
                t.push(b'a' + (t.len() % 26) as u8);
            }
        }
        let pos = match pk {
            0 => 1,
            1 => len / 2,
            2 => len / 2 + 3,
            k => len - (k - 2), // len-1 ..= len-9
        };
        if !bad.is_empty() {
            // overwrite at pos (keep the length)
            for (i, b) in bad.iter().enumerate() {
                if pos + i < t.len() {
                    t[pos + i] = *b;
                }
            }
        }
        let head: Vec<u8> = [&b"GET "[..], &t, b" HTTP/1.1\r\nHost: example\r\n\r\n"].concat();
        let tl = 4 + t.len();
        let n = match cut {
            0 => head.len(),
            1 => tl,
            2 => tl + 1,
            3 => tl + 9,
            4 => tl + 11,
            5 => tl + 16,
            _ => head.len() - 1,
        };
        let rec = CaseRec::new(sub, Entry::ReqParse, 0, 8, head[..n].to_vec());
        f(r, ctx, l, &rec)
    });
}

/// The same for the other long fields: header value, reason phrase, header name, chunk
/// extension (and a folded value under the fold option): 17 lengths around 512 B..64 KiB, one
/// special byte at the start / middle / one of the last 9 positions, whole or cut.
pub fn long_field_phase<F>(r: &Runner, sub: &'static str, accept: &(dyn Fn(Entry, u8) -> bool + Sync), f: F)
where
    F: Fn(&Runner, &mut Ctx, &mut Local, &CaseRec) -> Result<(), Violation> + Sync,
{
    use crate::real::*;
    const LENS: [usize; 17] = [511, 512, 1000, 1023, 1024, 1025, 1031, 2047, 2048, 2049, 4095, 4096, 4097, 8191, 8193, 65_535, 65_537];
    const BAD: [u8; 7] = [b'a', 0x00, 0x7f, 0x09, 0x80, 0xff, b'\r'];
    const NPOS: u64 = 12;
    const NCUT: u64 = 4;
    const NFIELD: u64 = 5;
    let total = LENS.len() as u64 * BAD.len() as u64 * NPOS * NCUT * NFIELD;
    r.par_enum("long header value / reason / header name / chunk extension / folded value: 17 lengths around 512 B..64 KiB × 7 byte kinds at 12 positions (start, middle, last 9) × 4 cuts (whole, end of field, after its line end, before the last byte)", total, |ctx, l, idx| {
        let mut x = idx;
        let cut = x % NCUT;
        x /= NCUT;
        let pk = (x % NPOS) as usize;
        x /= NPOS;
        let bad = BAD[(x % BAD.len() as u64) as usize];
        x /= BAD.len() as u64;
        let field = x % NFIELD;
        let len = LENS[(x / NFIELD) as usize];
        let mut t: Vec<u8> = (0..len).map(|i| b'a' + (i % 26) as u8).collect();
        let pos = match pk {
            0 => 0,
            1 => len / 2,
            2 => len / 2 + 3,
            k => len - (k - 2),
        };
        t[pos] = bad;
        let (entry, cfg, pre, post): (Entry, u8, &[u8], &[u8]) = match field {
            0 => (Entry::Headers, 0, b"Name: ", b"\r\nB: c\r\n\r\n"),
            1 => (Entry::RespParse, 0, b"HTTP/1.1 200 ", b"\r\nB: c\r\n\r\n"),
            2 => (Entry::Headers, 0, b"", b": v\r\nB: c\r\n\r\n"),
            3 => (Entry::Chunk, 0, b"1f;", b"\r\nrest"),
            _ => (Entry::RespCfg, C_MULTILINE, b"HTTP/1.1 200 OK\r\nName: v\r\n ", b"\r\nB: c\r\n\r\n"),
        };
        if !accept(entry, cfg) {
            return Ok(());
        }
        let full: Vec<u8> = [pre, &t, post].concat();
        let fe = pre.len() + t.len();
        let n = match cut {
            0 => full.len(),
            1 => fe,
            2 => fe + 2,
            _ => full.len() - 1,
        };
        let rec = CaseRec::new(sub, entry, cfg, 8, full[..n].to_vec());
        f(r, ctx, l, &rec)
    });
}
