//! C04 (b) — the types tie every returned slice to the buffer's lifetime and the headers
//! slice to the caller's array. A small grammar of client programs (entry point x field
//! x escape pattern) is enumerated completely; each program is compiled against the rlib
//! built from the current tree. Negative programs must be rejected by the borrow
//! checker; positive controls must compile.

use crate::engine::{CaseRec, Local, Runner, Violation};
use crate::real::{Ctx, Entry};
use std::process::Command;
use std::sync::atomic::{AtomicUsize, Ordering};
use std::sync::Mutex;

const BORROWCK: [&str; 12] = ["E0499", "E0502", "E0503", "E0505", "E0506", "E0515", "E0597", "E0716", "E0521", "E0713", "E0594", "E0596"];

struct EntryT {
    name: &'static str,
    /// statements that create `$v` (Request/Response value) borrowing `headers`/`uh`, given `buf: &[u8]`
    setup: &'static str,
    call: &'static str,
    kind: u8, // 0 request, 1 response, 2 parse_headers
}

const ENTRIES: [EntryT; 8] = [
    EntryT { name: "Request::parse", setup: "let mut v = httparse::Request::new(&mut headers[..]);", call: "let _ = v.parse(BUF);", kind: 0 },
    EntryT { name: "ParserConfig::parse_request", setup: "let mut v = httparse::Request::new(&mut headers[..]);", call: "let _ = httparse::ParserConfig::default().parse_request(&mut v, BUF);", kind: 0 },
    EntryT { name: "Request::parse_with_uninit_headers", setup: "let mut v = httparse::Request::new(&mut []);", call: "let _ = v.parse_with_uninit_headers(BUF, &mut uh[..]);", kind: 0 },
    EntryT { name: "ParserConfig::parse_request_with_uninit_headers", setup: "let mut v = httparse::Request::new(&mut []);", call: "let _ = httparse::ParserConfig::default().parse_request_with_uninit_headers(&mut v, BUF, &mut uh[..]);", kind: 0 },
    EntryT { name: "Response::parse", setup: "let mut v = httparse::Response::new(&mut headers[..]);", call: "let _ = v.parse(BUF);", kind: 1 },
    EntryT { name: "ParserConfig::parse_response", setup: "let mut v = httparse::Response::new(&mut headers[..]);", call: "let _ = httparse::ParserConfig::default().parse_response(&mut v, BUF);", kind: 1 },
    EntryT { name: "ParserConfig::parse_response_with_uninit_headers", setup: "let mut v = httparse::Response::new(&mut []);", call: "let _ = httparse::ParserConfig::default().parse_response_with_uninit_headers(&mut v, BUF, &mut uh[..]);", kind: 1 },
    EntryT { name: "parse_headers", setup: "", call: "let v = httparse::parse_headers(BUF, &mut headers[..]);", kind: 2 },
];

/// (field name, expression yielding something that borrows the buffer, applicable kinds)
const BUF_FIELDS: [(&str, &str, &[u8]); 6] = [
    ("method", "v.method", &[0]),
    ("path", "v.path", &[0]),
    ("reason", "v.reason", &[1]),
    ("headers[0].name", "v.headers.get(0).map(|h| h.name)", &[0, 1]),
    ("headers[0].value", "v.headers.get(0).map(|h| h.value)", &[0, 1]),
    ("returned header copy", "match v { Ok(httparse::Status::Complete((_, hs))) => hs.get(0).copied(), _ => None }", &[2]),
];

const PRELUDE: &str = "#![allow(unused)]\nuse std::mem::MaybeUninit;\nfn sink<T>(_t: T) {}\nfn data() -> Vec<u8> { b\"GET / HTTP/1.1\\r\\nA: b\\r\\n\\r\\n\".to_vec() }\n";
const ARRS: &str = "let mut headers = [httparse::EMPTY_HEADER; 4];\n    let mut uh: [MaybeUninit<httparse::Header<'_>>; 4] = [MaybeUninit::uninit(); 4];\n";

pub struct Prog {
    pub name: String,
    pub negative: bool,
    pub src: String,
}

pub fn programs() -> Vec<Prog> {
    let mut out = vec![];
    for e in ENTRIES.iter() {
        for (fname, fexpr, kinds) in BUF_FIELDS.iter() {
            if !kinds.contains(&e.kind) {
                continue;
            }
            let body = |buf_decl: &str, before_use: &str, bufexpr: &str| -> String {
                format!(
                    "{}    {}\n    {}\n    let f = {};\n    {}\n",
                    buf_decl,
                    e.setup,
                    e.call.replace("BUF", bufexpr),
                    fexpr,
                    before_use
                )
            };
            let mk = |pat: &str, negative: bool, main: String| Prog {
                name: format!("{} / {} / {}", e.name, fname, pat),
                negative,
                src: format!("{}fn main() {{\n{}\n}}\n", PRELUDE, main),
            };
            // P1: buffer dropped before the field is used
            out.push(mk("buffer dropped before use", true, format!(
                "    let f;\n    {{\n        let buf = data();\n        {}        {}\n        {}\n        f = {};\n    }}\n    sink(f);",
                ARRS, e.setup, e.call.replace("BUF", "&buf"), fexpr)));
            // positive twin: used before the drop
            out.push(mk("buffer dropped after use (control)", false, format!(
                "    {{\n        let buf = data();\n        {}        {}\n        {}\n        let f = {};\n        sink(f);\n    }}",
                ARRS, e.setup, e.call.replace("BUF", "&buf"), fexpr)));
            // P2: buffer mutated while the field is alive
            out.push(mk("buffer mutated while the field is alive", true, format!(
                "    let mut buf = data();\n    {}{}    buf[0] = b'X';\n    sink(f);",
                ARRS, body("", "", "&buf"))));
            out.push(mk("buffer mutated after the last use (control)", false, format!(
                "    let mut buf = data();\n    {{\n    {}{}    sink(f);\n    }}\n    buf[0] = b'X';",
                ARRS, body("", "", "&buf"))));
            // P3: buffer moved while the field is alive
            out.push(mk("buffer moved while the field is alive", true, format!(
                "    let buf = data();\n    {}{}    let moved = buf;\n    sink(f);\n    sink(moved);",
                ARRS, body("", "", "&buf"))));
            // P6: returning a field of a local buffer
            out.push(Prog {
                name: format!("{} / {} / returned from a function whose buffer is local", e.name, fname),
                negative: true,
                src: format!(
                    "{}fn leak() -> impl Sized + 'static {{\n    let buf = data();\n    {}    {}\n    {}\n    let f = {};\n    f\n}}\nfn main() {{ sink(leak()); }}\n",
                    PRELUDE, ARRS, e.setup, e.call.replace("BUF", "&buf"), fexpr
                ),
            });
            // P7: needs 'static
            out.push(mk("field required to be 'static", true, format!(
                "    fn need_static<T: 'static>(_t: T) {{}}\n    let buf = data();\n    {}{}    need_static(f);",
                ARRS, body("", "", "&buf"))));
            out.push(mk("field of a 'static buffer is 'static (control)", false, format!(
                "    fn need_static<T: 'static>(_t: T) {{}}\n    static BUF: &[u8] = b\"GET / HTTP/1.1\\r\\nA: b\\r\\n\\r\\n\";\n    {}    {}\n    {}\n    let f = {};\n    need_static(f);",
                ARRS.replace("Header<'_>", "Header<'static>"), e.setup, e.call.replace("BUF", "BUF"), fexpr)));
            // the field outlives the Request/Response value and the header array (control):
            if e.kind != 2 {
                out.push(mk("field used after the value and the array are gone (control)", false, format!(
                    "    let buf = data();\n    let f;\n    {{\n        {}        {}\n        {}\n        f = {};\n    }}\n    sink(f);",
                    ARRS, e.setup, e.call.replace("BUF", "&buf"), fexpr)));
            }
        }
        // the headers slice vs. the caller's array
        let hs_expr = if e.kind == 2 { "match v { Ok(httparse::Status::Complete((_, hs))) => Some(hs), _ => None }" } else { "&*v.headers" };
        let arr_name = if e.name.contains("uninit") { "uh" } else { "headers" };
        let mk = |pat: &str, negative: bool, main: String| Prog {
            name: format!("{} / headers slice / {}", e.name, pat),
            negative,
            src: format!("{}fn main() {{\n{}\n}}\n", PRELUDE, main),
        };
        out.push(mk("array dropped while the headers slice is alive", true, format!(
            "    let buf = data();\n    let hs;\n    {{\n        {}        {}\n        {}\n        hs = {};\n    }}\n    sink(hs);",
            ARRS, e.setup, e.call.replace("BUF", "&buf"), if e.kind == 2 { hs_expr.to_string() } else { "v.headers".to_string() })));
        out.push(mk("array overwritten while the headers slice is alive", true, format!(
            "    let buf = data();\n    {}    {}\n    {}\n    let hs = {};\n    {}[0] = {};\n    sink(hs);",
            ARRS, e.setup, e.call.replace("BUF", "&buf"), hs_expr, arr_name,
            if arr_name == "uh" { "MaybeUninit::uninit()" } else { "httparse::EMPTY_HEADER" })));
        out.push(mk("array re-borrowed mutably while the headers slice is alive", true, format!(
            "    let buf = data();\n    {}    {}\n    {}\n    let hs = {};\n    let again = &mut {}[..];\n    sink(hs);\n    sink(again);",
            ARRS, e.setup, e.call.replace("BUF", "&buf"), hs_expr, arr_name)));
        out.push(mk("array reused after the headers slice is dead (control)", false, format!(
            "    let buf = data();\n    {}    {{\n    {}\n    {}\n    let hs = {};\n    sink(hs);\n    }}\n    {}[0] = {};",
            ARRS, e.setup, e.call.replace("BUF", "&buf"), hs_expr, arr_name,
            if arr_name == "uh" { "MaybeUninit::uninit()" } else { "httparse::EMPTY_HEADER" })));
        out.push(mk("a Header copied out of the slice outlives the array (control)", false, format!(
            "    let buf = data();\n    let copy;\n    {{\n        {}        {}\n        {}\n        let hs = {};\n        copy = {};\n    }}\n    sink(copy);",
            ARRS, e.setup, e.call.replace("BUF", "&buf"), hs_expr,
            if e.kind == 2 { "hs.and_then(|h| h.get(0).copied())" } else { "hs.get(0).copied()" })));
    }
    // the doc(hidden) `_benchable` items hand out slices too
    for (name, call) in [("parse_method", "httparse::_benchable::parse_method(&mut b)"), ("parse_uri", "httparse::_benchable::parse_uri(&mut b)")] {
        out.push(Prog { name: format!("_benchable::{} / result / buffer dropped before use", name), negative: true, src: format!(
            "{}fn main() {{\n    let f;\n    {{\n        let buf = data();\n        let mut b = httparse::_benchable::Bytes::new(&buf);\n        f = {};\n    }}\n    sink(f);\n}}\n", PRELUDE, call) });
        out.push(Prog { name: format!("_benchable::{} / result / buffer mutated while alive", name), negative: true, src: format!(
            "{}fn main() {{\n    let mut buf = data();\n    let f;\n    {{\n        let mut b = httparse::_benchable::Bytes::new(&buf);\n        f = {};\n    }}\n    buf[0] = b'X';\n    sink(f);\n}}\n", PRELUDE, call) });
        out.push(Prog { name: format!("_benchable::{} / result / required to be 'static", name), negative: true, src: format!(
            "{}fn need_static<T: 'static>(_t: T) {{}}\nfn main() {{\n    let buf = data();\n    let mut b = httparse::_benchable::Bytes::new(&buf);\n    let f = {};\n    need_static(f);\n}}\n", PRELUDE, call) });
        out.push(Prog { name: format!("_benchable::{} / result used while the buffer lives (control)", name), negative: false, src: format!(
            "{}fn main() {{\n    let buf = data();\n    let mut b = httparse::_benchable::Bytes::new(&buf);\n    let f = {};\n    sink(f);\n}}\n", PRELUDE, call) });
    }
    out.push(Prog { name: "_benchable::Bytes / slice() result / buffer dropped before use".into(), negative: true, src: format!(
        "{}fn main() {{\n    let f;\n    {{\n        let buf = data();\n        let mut b = httparse::_benchable::Bytes::new(&buf);\n        let _ = b.next();\n        f = b.slice();\n    }}\n    sink(f);\n}}\n", PRELUDE) });
    // usage patterns that must keep compiling
    out.push(Prog { name: "README loop: re-parse a growing Vec with a re-created Request (control)".into(), negative: false, src: format!(
        "{}fn main() {{\n    let mut buf: Vec<u8> = Vec::new();\n    let input = data();\n    for chunk in input.chunks(3) {{\n        buf.extend_from_slice(chunk);\n        let mut headers = [httparse::EMPTY_HEADER; 16];\n        let mut req = httparse::Request::new(&mut headers);\n        match req.parse(&buf) {{\n            Ok(httparse::Status::Complete(n)) => {{ sink((n, req.method, req.path)); break; }}\n            Ok(httparse::Status::Partial) => continue,\n            Err(e) => {{ sink(e); break; }}\n        }}\n    }}\n}}\n", PRELUDE) });
    out.push(Prog { name: "doc example: Request::parse then inspect fields on Partial (control)".into(), negative: false, src: format!(
        "{}fn main() {{\n    let buf = b\"GET /404 HTTP/1.1\\r\\nHost:\";\n    let mut headers = [httparse::EMPTY_HEADER; 16];\n    let mut req = httparse::Request::new(&mut headers);\n    let res = req.parse(buf).unwrap();\n    if res.is_partial() {{ if let Some(p) = req.path {{ sink(p); }} }}\n}}\n", PRELUDE) });
    out.push(Prog { name: "parse_chunk_size result is independent of the buffer (control)".into(), negative: false, src: format!(
        "{}fn main() {{\n    let r;\n    {{ let buf = b\"4\\r\\n\".to_vec(); r = httparse::parse_chunk_size(&buf); }}\n    sink(r);\n}}\n", PRELUDE) });
    out.push(Prog { name: "Response reused for a second buffer with a longer-lived first buffer (control)".into(), negative: false, src: format!(
        "{}fn main() {{\n    let a = data();\n    let b = data();\n    let mut headers = [httparse::EMPTY_HEADER; 4];\n    let mut resp = httparse::Response::new(&mut headers);\n    let _ = resp.parse(&a);\n    let _ = resp.parse(&b);\n    sink(resp.reason);\n}}\n", PRELUDE) });
    out.push(Prog { name: "Request reused: first buffer dropped before the second parse".into(), negative: true, src: format!(
        "{}fn main() {{\n    let b = data();\n    let mut headers = [httparse::EMPTY_HEADER; 4];\n    let mut req = httparse::Request::new(&mut headers);\n    {{ let a = data(); let _ = req.parse(&a); }}\n    let _ = req.parse(&b);\n    sink(req.method);\n}}\n", PRELUDE) });
    out
}

fn build_rlib(r: &Runner) -> Option<String> {
    let dir = format!("{}/target/c04", crate::verif_dir());
    let out = Command::new("cargo")
        .current_dir(crate::repo_dir())
        .args(["build", "--release", "--offline", "--target-dir", &dir])
        .env("RUSTFLAGS", "--cap-lints warn")
        .output();
    match out {
        Ok(o) if o.status.success() => Some(format!("{}/release/libhttparse.rlib", dir)),
        Ok(o) => {
            r.inconclusive.lock().unwrap().push(format!("cannot build httparse for the compile corpus: {}", String::from_utf8_lossy(&o.stderr).lines().filter(|l| l.starts_with("error")).take(3).collect::<Vec<_>>().join(" | ")));
            None
        }
        Err(e) => {
            r.inconclusive.lock().unwrap().push(format!("cannot run cargo: {}", e));
            None
        }
    }
}

pub enum Judged {
    Ok,
    Violation(String, String),
    Inconclusive(String),
}

/// compile one program; returns the error codes rustc reported (empty = compiled)
fn compile(rlib: &str, src: &str, tag: &str) -> Result<Vec<String>, String> {
    let dir = format!("{}/target/c04/progs", crate::verif_dir());
    let _ = std::fs::create_dir_all(&dir);
    let path = format!("{}/{}.rs", dir, tag);
    std::fs::write(&path, src).map_err(|e| e.to_string())?;
    let out = Command::new("rustc")
        .args(["--edition", "2021", "--crate-type", "bin", "--emit=metadata", "--error-format=json", "--cap-lints", "allow", "-o"])
        .arg(format!("{}/{}.rmeta", dir, tag))
        .arg("--extern")
        .arg(format!("httparse={}", rlib))
        .arg(&path)
        .output()
        .map_err(|e| e.to_string())?;
    let mut codes = vec![];
    let mut had_error = false;
    for line in String::from_utf8_lossy(&out.stderr).lines() {
        if let Ok(v) = serde_json::from_str::<serde_json::Value>(line) {
            if v["level"] == "error" {
                had_error = true;
                if let Some(c) = v["code"]["code"].as_str() {
                    codes.push(c.to_string());
                } else if let Some(m) = v["message"].as_str() {
                    if m.contains("lifetime may not live long enough") || m.contains("borrowed data escapes") {
                        codes.push("E0521".into());
                    } else if !m.starts_with("aborting due to") {
                        codes.push(format!("msg:{}", m.chars().take(60).collect::<String>()));
                    }
                }
            }
        }
    }
    let _ = std::fs::remove_file(&path);
    let _ = std::fs::remove_file(format!("{}/{}.rmeta", dir, tag));
    if !out.status.success() && !had_error {
        return Err(format!("rustc failed without diagnostics: {}", String::from_utf8_lossy(&out.stderr).lines().next().unwrap_or("")));
    }
    Ok(codes)
}

pub fn judge(rlib: &str, p: &Prog, tag: &str) -> Judged {
    match compile(rlib, &p.src, tag) {
        Err(e) => Judged::Inconclusive(e),
        Ok(codes) => {
            let all_borrowck = !codes.is_empty() && codes.iter().all(|c| BORROWCK.contains(&c.as_str()));
            if p.negative {
                if codes.is_empty() {
                    Judged::Violation(
                        "C04/escaping-program-compiles".into(),
                        format!("the program `{}` lets a returned slice outlive or alias-mutate its buffer/array, and it compiles", p.name),
                    )
                } else if all_borrowck {
                    Judged::Ok
                } else {
                    Judged::Inconclusive(format!("negative program `{}` was rejected for a reason other than borrow checking: {:?}", p.name, codes))
                }
            } else if codes.is_empty() {
                Judged::Ok
            } else if all_borrowck {
                Judged::Violation(
                    "C04/legitimate-program-rejected".into(),
                    format!("the usage pattern `{}` must keep compiling but is rejected by the borrow checker: {:?}", p.name, codes),
                )
            } else {
                Judged::Inconclusive(format!("positive control `{}` fails to compile for a reason other than borrow checking: {:?}", p.name, codes))
            }
        }
    }
}

/// replay of one program: rec.buf = source, rec.aux[0] = 1 if negative
pub fn check(r: &Runner, _ctx: &mut Ctx, l: &mut Local, rec: &CaseRec) -> Result<(), Violation> {
    let rlib = match build_rlib(r) {
        Some(x) => x,
        None => return Ok(()),
    };
    let p = Prog {
        name: rec.bufs.first().map(|b| String::from_utf8_lossy(b).to_string()).unwrap_or_default(),
        negative: rec.aux.first().copied().unwrap_or(0) == 1,
        src: String::from_utf8_lossy(&rec.buf).to_string(),
    };
    match judge(&rlib, &p, &format!("replay-{}", std::process::id())) {
        Judged::Violation(sig, d) => Err(Violation::new(sig, d, rec)),
        Judged::Inconclusive(m) => {
            r.inconclusive.lock().unwrap().push(m);
            Ok(())
        }
        Judged::Ok => {
            r.account(l, rec, true, "compile corpus program");
            Ok(())
        }
    }
}

pub fn run(r: &Runner) {
    let t0 = std::time::Instant::now();
    let rlib = match build_rlib(r) {
        Some(x) => x,
        None => return,
    };
    let progs = programs();
    let next = AtomicUsize::new(0);
    let stats = Mutex::new((0u64, 0u64)); // negatives rejected, positives accepted
    std::thread::scope(|s| {
        for t in 0..r.threads.min(16) {
            let (progs, next, rlib, stats) = (&progs, &next, &rlib, &stats);
            s.spawn(move || loop {
                let i = next.fetch_add(1, Ordering::Relaxed);
                if i >= progs.len() {
                    break;
                }
                let p = &progs[i];
                let mut rec = CaseRec::new("compile", Entry::Chunk, 0, 0, p.src.as_bytes().to_vec());
                rec.aux = vec![p.negative as u64];
                rec.bufs = vec![p.name.as_bytes().to_vec()];
                match judge(rlib, p, &format!("p{}-{}", t, i)) {
                    Judged::Ok => {
                        let mut s = stats.lock().unwrap();
                        if p.negative {
                            s.0 += 1
                        } else {
                            s.1 += 1
                        }
                    }
                    Judged::Violation(sig, d) => {
                        r.report(Violation::new(sig, d, &rec));
                    }
                    Judged::Inconclusive(m) => r.inconclusive.lock().unwrap().push(m),
                }
            });
        }
    });
    let (neg, pos) = *stats.lock().unwrap();
    let total_neg = progs.iter().filter(|p| p.negative).count() as u64;
    let total_pos = progs.len() as u64 - total_neg;
    {
        let mut h = r.stats.hist.lock().unwrap();
        h.insert("compile corpus: negative programs rejected by borrowck".into(), neg);
        h.insert("compile corpus: negative programs total".into(), total_neg);
        h.insert("compile corpus: positive controls accepted".into(), pos);
        h.insert("compile corpus: positive controls total".into(), total_pos);
    }
    r.stats.evals.fetch_add(progs.len() as u64, Ordering::Relaxed);
    r.stats.samples.lock().unwrap().push(serde_json::json!({
        "sub": "compile", "program": progs[0].name, "negative": progs[0].negative, "source": progs[0].src,
    }));
    r.phase_done("part (b): client programs (entry point × field × escape pattern, + controls) compiled against the current tree's rlib — exhaustive over the grammar", progs.len() as u64, true, t0);
}
