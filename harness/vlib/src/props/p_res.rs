//! C19 (allocation-free, no_std-clean) and C20 (linear work).

use super::common::*;
use crate::arena::Placement;
use crate::choice::Choice;
use crate::engine::{mix, CaseRec, Lcg, Local, Runner, Violation};
use crate::gen::{self, Profile, HDR_ALPHABET, HDR_CONTEXTS};
use crate::real::*;
use std::process::Command;

// =================================================================================
// C19
// =================================================================================

pub fn check_c19(r: &Runner, ctx: &mut Ctx, l: &mut Local, rec: &CaseRec) -> Result<(), Violation> {
    let obs = run_rec(ctx, rec);
    if let St::Panic(m) = &obs.st {
        return Err(Violation::new("C19/panic", format!("parser panicked: {}", m), rec));
    }
    if obs.allocs != 0 {
        return Err(Violation::new(
            format!("C19/allocates/{}", rec.kind().name()),
            format!("{} allocator call(s) on this thread during {} (outcome {}) [cfg={:#04x} cap={}]", obs.allocs, rec.entry.name(), obs.st.show(), rec.cfg, rec.cap),
            rec,
        ));
    }
    if l.counting {
        l.bump(status_hist_key(&obs.st));
        l.bump(match rec.entry {
            Entry::ReqParse => "entry:Request::parse",
            Entry::ReqCfg => "entry:parse_request",
            Entry::ReqUninit => "entry:Request::parse_with_uninit_headers",
            Entry::ReqCfgUninit => "entry:parse_request_with_uninit_headers",
            Entry::RespParse => "entry:Response::parse",
            Entry::RespCfg => "entry:parse_response",
            Entry::RespUninit => "entry:default parse_response_with_uninit_headers",
            Entry::RespCfgUninit => "entry:parse_response_with_uninit_headers",
            Entry::Headers => "entry:parse_headers",
            Entry::Chunk => "entry:parse_chunk_size",
        });
    }
    let nt = !(obs.st == St::Partial && rec.buf.is_empty());
    r.account(l, rec, nt, &obs.st.show());
    Ok(())
}

fn run_build(r: &Runner, name: &str, cmd: &mut Command) {
    let t0 = std::time::Instant::now();
    let out = crate::engine::run_external(cmd);
    match out {
        Ok(o) if o.status.success() => {
            r.note(format!("build ok: {} ({:.1} s)", name, t0.elapsed().as_secs_f64()));
            r.stats.hist.lock().unwrap().insert(format!("build-ok:{}", name), 1);
        }
        Ok(o) => {
            let err = String::from_utf8_lossy(&o.stderr).to_string();
            let is_code = err.contains("error[E") || err.contains("error: cannot find") || err.contains("can't find crate") || err.contains("unresolved import") || err.contains("could not compile `httparse`");
            if is_code {
                let tail: String = err.lines().filter(|l| l.starts_with("error")).take(4).collect::<Vec<_>>().join(" | ");
                let mut rec = CaseRec::new("build", Entry::Chunk, 0, 0, name.as_bytes().to_vec());
                rec.bufs = vec![tail.as_bytes().to_vec()];
                r.report(Violation::new(format!("C19/build-fails/{}", name.split(' ').next().unwrap_or("x")), format!("`{}` fails: {}", name, tail), &rec));
            } else {
                r.inconclusive.lock().unwrap().push(format!("build `{}` failed for a reason that is not a compile error of httparse: {}", name, err.lines().last().unwrap_or("")));
            }
        }
        Err(e) => r.inconclusive.lock().unwrap().push(format!("cannot run build `{}`: {}", name, e)),
    }
}

pub fn c19_builds(r: &Runner) {
    let target = format!("{}/target/c19", crate::verif_dir());
    let mut c = Command::new("cargo");
    c.current_dir(crate::repo_dir())
        .args(["+nightly", "build", "-Zbuild-std=core", "--target", "x86_64-unknown-none", "--no-default-features", "--target-dir"])
        .arg(format!("{}/none", target))
        .env_remove("RUSTFLAGS")
        .env("CARGO_NET_OFFLINE", "true");
    run_build(r, "no_std-core-only: cargo +nightly build -Zbuild-std=core --target x86_64-unknown-none --no-default-features", &mut c);
    let mut c = Command::new("cargo");
    c.current_dir(crate::repo_dir())
        .args(["build", "--no-default-features", "--offline", "--target-dir"])
        .arg(format!("{}/host", target))
        .env_remove("RUSTFLAGS");
    run_build(r, "no-default-features: cargo build --no-default-features", &mut c);
    // no_std with statically enabled vector features (what `-C target-cpu=native` gives a
    // no_std user on x86): the vector kernels must then be core-only as well. Own target
    // dirs: build.rs does not re-run when only RUSTFLAGS-derived cfgs change.
    for (tag, flags) in [("sse42", "-C target-feature=+sse4.2"), ("avx2", "-C target-feature=+avx2"), ("sse42-avx2", "-C target-feature=+sse4.2,+avx2")] {
        let mut c = Command::new("cargo");
        c.current_dir(crate::repo_dir())
            .args(["build", "--no-default-features", "--offline", "--target-dir"])
            .arg(format!("{}/host-{}", target, tag))
            .env("RUSTFLAGS", flags);
        run_build(r, &format!("no-default-features+{}: RUSTFLAGS='{}' cargo build --no-default-features", tag, flags), &mut c);
    }
}

/// SCREAMING_SNAKE identifiers of the source under test: candidates for environment variables
/// the code might consult at run time
fn env_candidates() -> Vec<String> {
    let root = std::env::var("VERIF_REPO").unwrap_or_else(|_| "/repo".to_string());
    let mut out: Vec<String> = vec![];
    for f in ["src/lib.rs", "src/iter.rs", "src/macros.rs", "src/simd/mod.rs", "src/simd/swar.rs", "src/simd/sse42.rs", "src/simd/avx2.rs", "src/simd/runtime.rs"] {
        if let Ok(s) = std::fs::read_to_string(format!("{}/{}", root, f)) {
            let cut = s.find("#[cfg(test)]\nmod tests").unwrap_or(s.len());
            let mut cur = String::new();
            for ch in s[..cut].chars().chain(std::iter::once(' ')) {
                if ch.is_ascii_uppercase() || ch.is_ascii_digit() || ch == '_' {
                    cur.push(ch);
                } else {
                    if cur.len() >= 6 && cur.contains('_') && cur.chars().next().map(|c| c.is_ascii_uppercase()).unwrap_or(false) && !out.contains(&cur) {
                        out.push(cur.clone());
                    }
                    cur.clear();
                }
            }
        }
    }
    out.truncate(200);
    out
}

/// Cold start under a rich environment: every candidate variable set, the cached feature cell
/// reset (hook H2) before each armed call, on every worker thread.
fn c19_cold_start(r: &Runner) {
    let names = env_candidates();
    for n in &names {
        std::env::set_var(n, "1");
    }
    r.note(format!("cold-start phase ran with {} candidate environment variables set to 1", names.len()));
    const MSGS: [(&[u8], Entry); 4] = [
        (b"GET /a/long/target/longer/than/thirty-two/bytes/for/the/vector/path HTTP/1.1\r\nHost: a value longer than thirty-two bytes for the vector path\r\n\r\n", Entry::ReqParse),
        (b"HTTP/1.1 200 OK\r\nServer: a value that is longer than thirty-two bytes for the vector path\r\n\r\n", Entry::RespParse),
        (b"Name: 0123456789abcdef0123456789abcdef0123456789abcdef\r\n\r\n", Entry::Headers),
        (b"ff;ext\r\n", Entry::Chunk),
    ];
    r.par_enum("cold start: cached CPU-feature cell reset to 0 before every armed call, candidate environment variables set", 4 * 400, |ctx, l, idx| {
        let (m, e) = MSGS[(idx % 4) as usize];
        httparse::_verif::simd::set_runtime_feature(0);
        let rec = CaseRec::new("alloc", e, 0, 4, m.to_vec());
        check_c19(r, ctx, l, &rec)
    });
    for n in &names {
        std::env::remove_var(n);
    }
    set_backend(0);
}

pub fn run_c19(r: &Runner) {
    if !crate::alloc::installed() {
        r.inconclusive.lock().unwrap().push("counting allocator is not installed in this binary".into());
        return;
    }
    c19_builds(r);
    if r.stopped() {
        return;
    }
    c19_cold_start(r);
    if r.stopped() {
        return;
    }
    families_phase(r, "alloc", &|_e, _c| true, check_c19);
    static K: [Kind; 4] = ALL_KINDS;
    let g = GenSpec { kinds: &K, profile: Profile::DEFAULT, generous_cap: false, cfg_mask: 0x7f, cfg_entry_only: false };
    r.par_random(
        "G1 messages × all entry points × configs × capacities, allocator armed around the call",
        r.amount(6_000_000, 80_000_000),
        160,
        |u: &mut Choice| g1_case(u, "alloc", &g),
        &|ctx, l, rec| check_c19(r, ctx, l, rec),
    );
    let g2 = GenSpec { kinds: &RR_KINDS, profile: Profile::LENIENT, generous_cap: false, cfg_mask: 0x7f, cfg_entry_only: true };
    r.par_random(
        "G1 lenient-weighted messages (rare branches: folds, ignored lines, UTF-8 errors)",
        r.amount(3_000_000, 40_000_000),
        160,
        |u: &mut Choice| g1_case(u, "alloc", &g2),
        &|ctx, l, rec| check_c19(r, ctx, l, rec),
    );
    // every error kind through structured inputs
    let per = gen::count_upto(11, if r.quick() { 4 } else { 5 });
    r.par_enum("header strings (11-symbol alphabet) × 8 contexts × 9 entry points × configs from index", per * 8 * 9, |ctx, l, idx| {
        let entry = ALL_ENTRIES[(idx % 9) as usize];
        let x = idx / 9;
        let c = (x % 8) as usize;
        let s = x / 8;
        let cfg = if entry.takes_cfg() { (mix(idx) & 0x7f) as u8 } else { 0 };
        let mut block = HDR_CONTEXTS[c].to_vec();
        gen::nth_string(&HDR_ALPHABET, s, &mut block);
        let rec = CaseRec::new("alloc", entry, cfg, (mix(idx ^ 3) % 4) as usize, with_start_line(entry.kind(), &block));
        check_c19(r, ctx, l, &rec)
    });
    // bad UTF-8 targets of every length
    r.par_enum("targets with invalid UTF-8 at every position of lengths 1..=64", 64 * 64, |ctx, l, idx| {
        let len = (idx / 64) as usize + 1;
        let pos = (idx % 64) as usize % len;
        let mut t = vec![b'a'; len];
        t[pos] = 0xff;
        let buf = [&b"GET /"[..], &t, b" HTTP/1.1\r\n\r\n"].concat();
        let rec = CaseRec::new("alloc", ALL_ENTRIES[(idx % 4) as usize], 0, 4, buf);
        check_c19(r, ctx, l, &rec)
    });
}

// =================================================================================
// C20
// =================================================================================

const CN: [&str; 11] = ["new", "peek", "peek_ahead", "peek_n", "peek_n_bytes", "advance", "advance_bytes", "set_cursor", "set_cursor_back_bytes", "as_ref", "next"];

pub fn check_c20(r: &Runner, ctx: &mut Ctx, l: &mut Local, rec: &CaseRec) -> Result<(), Violation> {
    if rec.sub == "cachegrind-hang" {
        let (f, n) = (rec.aux[0] as usize, rec.aux[1] as usize);
        let bname = C20_BUILDS[(rec.aux.get(2).copied().unwrap_or(0) as usize).min(2)];
        if let Some(bin) = vdigest_for_c20(r, bname) {
            if let Err(e) = family_cost(&bin, f, n, &format!("replay{}", std::process::id())) {
                if e.starts_with("HANG") {
                    return Err(Violation::new("C20/non-termination", format!("vdigest build `{}`: {}", bname, &e[5..]), rec));
                }
            }
        }
        r.account(l, rec, true, "hang replay");
        return Ok(());
    }
    if rec.sub == "cachegrind" {
        // replay: recompute the scaling of this family
        let (f, n) = (rec.aux[0] as usize, rec.aux[1] as usize);
        let bname = C20_BUILDS[(rec.aux.get(2).copied().unwrap_or(0) as usize).min(2)];
        let bin = match vdigest_for_c20(r, bname) {
            Some(b) => b,
            None => return Ok(()),
        };
        let tag = format!("replay{}", std::process::id());
        return match (family_cost(&bin, f, n, &tag), family_cost(&bin, f, 4 * n, &tag)) {
            (Ok((c1, _)), Ok((c4, rec4))) => {
                judge_scaling(f, n, c1, c4, &rec4, bname)?;
                r.account(l, rec, true, "cachegrind scaling");
                Ok(())
            }
            (Err(e), _) | (_, Err(e)) => {
                r.inconclusive.lock().unwrap().push(e);
                Ok(())
            }
        };
    }
    if BACKEND.load(std::sync::atomic::Ordering::Relaxed) != rec.backend {
        set_backend(rec.backend);
    }
    let obs = run_rec(ctx, rec);
    if let St::Panic(m) = &obs.st {
        return Err(Violation::new("C20/panic", format!("parser panicked: {}", m), rec));
    }
    let c = obs.counters;
    let len = rec.buf.len() as u64;
    let v = |sig: &str, d: String| Err(Violation::new(sig.to_string(), format!("{} [len={} {} cfg={:#04x} backend={} counters={:?}]", d, len, rec.entry.name(), rec.cfg, backend_name(rec.backend), CN.iter().zip(c.iter()).collect::<Vec<_>>()), rec));
    if c[0] != 1 {
        return v("C20/cursor-recreated", format!("{} cursors were created during one call (restarting from an earlier position)", c[0]));
    }
    if c[8] != 0 {
        return v("C20/backward-move", format!("the cursor was moved backwards by {} bytes in total", c[8]));
    }
    if c[6] > len {
        return v("C20/travel-exceeds-length", format!("cursor travel {} exceeds the buffer length {}", c[6], len));
    }
    if let St::Complete(n) = obs.st {
        if rec.kind() != Kind::Chunk && c[6] != n as u64 {
            return v("C20/travel-differs-from-offset", format!("Complete({}) but the cursor travelled {} bytes", n, c[6]));
        }
    }
    if c[3] > len + 16 {
        return v("C20/block-peeks", format!("{} block peeks for a buffer of {} bytes (> length + 16)", c[3], len));
    }
    // block peeks cover at most one machine word / 8 bytes each
    if c[4] > 8 * (len + 16) + 64 {
        return v("C20/tripwire/peek_n_bytes", format!("block peeks covered {} bytes for a buffer of {} bytes", c[4], len));
    }
    for (i, name) in [(1usize, "peek"), (2, "peek_ahead"), (9, "as_ref"), (10, "next"), (5, "advance")] {
        if c[i] > 8 * len + 64 {
            return v(&format!("C20/tripwire/{}", name), format!("{} = {} exceeds 8*len+64 for a buffer of {} bytes", name, c[i], len));
        }
    }
    if l.counting && len >= 1024 {
        let f = len as f64;
        l.max("max peek_n calls / len", c[3] as f64 / f);
        l.max("max peek_n bytes / len", c[4] as f64 / f);
        l.max("max as_ref calls / len", c[9] as f64 / f);
        l.max("max next calls / len", c[10] as f64 / f);
        l.max("max peek calls / len", c[1] as f64 / f);
        l.max("max advance calls / len", c[5] as f64 / f);
        l.max("max cursor travel / len", c[6] as f64 / f);
        l.bump(status_hist_key(&obs.st));
    }
    let nt = len >= 4096 && c[6] * 10 >= len * 9;
    r.account(l, rec, nt, &format!("{} travel={} peek_n={}", obs.st.show(), c[6], c[3]));
    Ok(())
}

// ---- instruction-count scaling under cachegrind (no hooks: sees work that bypasses the cursor) ----

fn cachegrind_irefs(bin: &std::path::Path, corpus: &str, repeat: usize) -> Result<u64, String> {
    let mut child = Command::new("valgrind")
        .args(["--tool=cachegrind", "--cache-sim=no", "--cachegrind-out-file=/dev/null"])
        .arg(bin)
        .arg("--repeat")
        .arg(repeat.to_string())
        .arg(corpus)
        .stdout(std::process::Stdio::null())
        .stderr(std::process::Stdio::piped())
        .spawn_dwp()
        .map_err(|e| format!("cannot run valgrind: {}", e))?;
    // time budget: a run that exceeds it is inconclusive, never a violation
    let t0 = std::time::Instant::now();
    loop {
        match child.try_wait() {
            Ok(Some(_)) => break,
            Ok(None) => {
                if t0.elapsed().as_secs() > crate::engine::env_u64("VERIF_CACHEGRIND_BUDGET_S", 900) {
                    let _ = child.kill();
                    let _ = child.wait();
                    return Err("valgrind run exceeded its time budget".into());
                }
                // this phase makes no per-case progress: keep the stall monitor quiet
                crate::engine::PROGRESS.fetch_add(1, std::sync::atomic::Ordering::Relaxed);
                std::thread::sleep(std::time::Duration::from_millis(20));
            }
            Err(e) => return Err(e.to_string()),
        }
    }
    let out = child.wait_with_output().map_err(|e| e.to_string())?;
    let err = String::from_utf8_lossy(&out.stderr);
    for line in err.lines() {
        if line.contains("I") && line.contains("refs:") {
            let digits: String = line.split("refs:").nth(1).unwrap_or("").chars().filter(|c| c.is_ascii_digit()).collect();
            if let Ok(v) = digits.parse::<u64>() {
                return Ok(v);
            }
        }
    }
    Err(format!("no instruction count in valgrind output: {}", err.lines().last().unwrap_or("")))
}

/// per-parse-batch instruction cost of family f at `size`: I(repeat 3) - I(repeat 1)
fn family_cost(bin: &std::path::Path, f: usize, size: usize, tag: &str) -> Result<(u64, CaseRec), String> {
    let dir = format!("{}/target/c20", crate::verif_dir());
    let _ = std::fs::create_dir_all(&dir);
    let (entry, cfg, buf) = gen::family(f, size);
    let rec = CaseRec::new("cachegrind", entry, cfg, size / 3 + 16, buf);
    let path = format!("{}/fam{}_{}_{}.bin", dir, f, size, tag);
    super::p_variants::write_corpus(&path, std::slice::from_ref(&rec));
    // native pre-run (milliseconds): a parse that does not return is reported as such
    // instead of burning valgrind budgets
    {
        let mut child = Command::new(bin)
            .arg(&path)
            .stdout(std::process::Stdio::null())
            .stderr(std::process::Stdio::null())
            .spawn_dwp()
            .map_err(|e| format!("cannot run vdigest: {}", e))?;
        let t0 = std::time::Instant::now();
        loop {
            match child.try_wait() {
                Ok(Some(_)) => break,
                Ok(None) => {
                    if t0.elapsed().as_secs() > 30 {
                        let _ = child.kill();
                        let _ = child.wait();
                        let _ = std::fs::remove_file(&path);
                        return Err(format!("HANG family {} ({}) at {} bytes: the production build does not return within 30 s", f, gen::family_name(f), size));
                    }
                    crate::engine::PROGRESS.fetch_add(1, std::sync::atomic::Ordering::Relaxed);
                    std::thread::sleep(std::time::Duration::from_millis(5));
                }
                Err(e) => return Err(e.to_string()),
            }
        }
    }
    let a = cachegrind_irefs(bin, &path, 1);
    let b = cachegrind_irefs(bin, &path, 3);
    let _ = std::fs::remove_file(&path);
    let (a, b) = (a?, b?);
    Ok((b.saturating_sub(a), rec))
}

const CG_FACTOR: u64 = 8; // cost(4N) <= 8 * cost(N) + slack; linear = 4, quadratic = 16
const CG_SLACK: u64 = 60_000;

const C20_BUILDS: [&str; 3] = ["runtime", "runtime-dbg", "simd-disabled"];

fn judge_scaling(f: usize, n: usize, c1: u64, c4: u64, rec: &CaseRec, build: &str) -> Result<(), Violation> {
    if c4 > CG_FACTOR * c1 + CG_SLACK {
        let mut rec = rec.clone();
        rec.aux = vec![f as u64, n as u64, C20_BUILDS.iter().position(|b| *b == build).unwrap_or(0) as u64];
        return Err(Violation::new(
            "C20/superlinear-instruction-count",
            format!("vdigest build `{}`, family {} ({}): 6 parses of {} bytes cost {} instructions but 6 parses of {} bytes cost {} (x{:.1}; linear would be x4, the bound is x{})",
                build, f, gen::family_name(f), n, c1, 4 * n, c4, c4 as f64 / c1.max(1) as f64, CG_FACTOR),
            &rec,
        ));
    }
    Ok(())
}

fn vdigest_for_c20(r: &Runner, name: &str) -> Option<std::path::PathBuf> {
    let v = super::p_variants::VARIANTS.iter().find(|v| v.name == name).unwrap();
    match super::p_variants::build_variant(v) {
        Ok(p) => Some(p),
        Err((_, msg)) => {
            r.inconclusive.lock().unwrap().push(format!("cannot build vdigest for the cachegrind phase: {}", msg));
            None
        }
    }
}

fn cachegrind_phase(r: &Runner) {
    let t0 = std::time::Instant::now();
    if Command::new("valgrind").arg("--version").output().is_err() {
        r.inconclusive.lock().unwrap().push("valgrind not available".into());
        return;
    }
    let mut bins = vec![];
    if let Some(b) = vdigest_for_c20(r, "runtime") {
        bins.push(("runtime", b));
    }
    // the debug-assertion build: work hidden in a debug_assert! (a re-scan of the value so
    // far at every fold, say) makes plain `cargo build` users quadratic, not release users
    if let Some(b) = vdigest_for_c20(r, "runtime-dbg") {
        bins.push(("runtime-dbg", b));
    }
    if !r.quick() {
        if let Some(b) = vdigest_for_c20(r, "simd-disabled") {
            bins.push(("simd-disabled", b));
        }
    }
    let sizes: &[usize] = if r.quick() { &[1024, 8192] } else { &[1024, 8192, 32768] };
    let mut jobs = vec![];
    // small sizes first: a quadratic family is then reported from its cheap runs and the
    // expensive ones are never started
    for (si, &n) in sizes.iter().enumerate() {
        for (bi, (name, _)) in bins.iter().enumerate() {
            if r.quick() && *name == "runtime-dbg" && si > 0 {
                continue; // quick tier: the debug-assertion build at the smallest size only
            }
            for f in 0..gen::N_FAMILIES {
                jobs.push((bi, f, n));
            }
        }
    }
    let next = std::sync::atomic::AtomicUsize::new(0);
    let maxratio = std::sync::Mutex::new((0f64, 0usize));
    std::thread::scope(|s| {
        for _ in 0..r.threads.min(16) {
            s.spawn(|| loop {
                let i = next.fetch_add(1, std::sync::atomic::Ordering::Relaxed);
                if i >= jobs.len() || r.stopped() {
                    break;
                }
                let (bi, f, n) = jobs[i];
                let tag = format!("{}", i);
                let c1 = family_cost(&bins[bi].1, f, n, &tag);
                let c4 = family_cost(&bins[bi].1, f, 4 * n, &tag);
                match (c1, c4) {
                    (Ok((c1, _)), Ok((c4, rec))) => {
                        {
                            let mut m = maxratio.lock().unwrap();
                            let ratio = c4 as f64 / c1.max(1) as f64;
                            if ratio > m.0 {
                                *m = (ratio, f);
                            }
                        }
                        if let Err(v) = judge_scaling(f, n, c1, c4, &rec, bins[bi].0) {
                            r.report(v);
                        }
                    }
                    (Err(e), _) | (_, Err(e)) if e.starts_with("HANG") => {
                        let (entry, cfg, buf) = gen::family(f, n);
                        let mut rec = CaseRec::new("cachegrind-hang", entry, cfg, n / 3 + 16, buf);
                        rec.aux = vec![f as u64, n as u64, C20_BUILDS.iter().position(|b| *b == bins[bi].0).unwrap_or(0) as u64];
                        r.report(Violation::new("C20/non-termination", format!("vdigest build `{}`: {}", bins[bi].0, &e[5..]), &rec));
                    }
                    (Err(e), _) | (_, Err(e)) => r.inconclusive.lock().unwrap().push(format!("cachegrind family {}: {}", f, e)),
                }
            });
        }
    });
    let m = *maxratio.lock().unwrap();
    r.stats.maxima.lock().unwrap().insert(format!("max cachegrind cost(4N)/cost(N) (family {})", m.1), m.0);
    r.stats.evals.fetch_add(jobs.len() as u64 * 4, std::sync::atomic::Ordering::Relaxed);
    r.stats.hist.lock().unwrap().insert("cachegrind scaling comparisons".into(), jobs.len() as u64);
    r.phase_done(&format!("instruction-count scaling under valgrind --tool=cachegrind (production and debug-assertion builds of vdigest, no hooks): {} families × N in {:?} vs 4N × {} build(s); cost(4N) <= {}*cost(N)+{}", gen::N_FAMILIES, sizes, bins.len(), CG_FACTOR, CG_SLACK), jobs.len() as u64, true, t0);
}

pub fn run_c20(r: &Runner) {
    cachegrind_phase(r);
    if r.stopped() {
        return;
    }
    let backends = usable_backends();
    let sizes: &[usize] = if r.quick() { &[1 << 10, 1 << 12, 1 << 14, 1 << 16, 1 << 18, 1 << 20] } else { &[1 << 10, 1 << 11, 1 << 12, 1 << 13, 1 << 14, 1 << 15, 1 << 16, 1 << 17, 1 << 18, 1 << 19, 1 << 20] };
    let vars: u64 = if r.quick() { 4 } else { 12 };
    for &be in &backends {
        set_backend(be);
        let total = gen::N_FAMILIES as u64 * sizes.len() as u64 * vars;
        r.par_enum(&format!("{} adversarial families × {} sizes up to 1 MiB × {} variants (whole / truncated / late error / size jitter), backend {}", gen::N_FAMILIES, sizes.len(), vars, backend_name(be)), total, |ctx, l, idx| {
            let var = idx % vars;
            let x = idx / vars;
            let f = (x % gen::N_FAMILIES as u64) as usize;
            let size = sizes[(x / gen::N_FAMILIES as u64) as usize];
            let mut rng = Lcg(mix(idx ^ r.seed.wrapping_mul(77)));
            let (entry, cfg, mut buf) = gen::family(f, size + if var % 4 == 3 { rng.below(97) } else { 0 });
            match var % 4 {
                1 => {
                    let k = rng.below(buf.len() + 1);
                    buf.truncate(k);
                }
                2 => {
                    let k = buf.len() - 1 - rng.below(buf.len().min(300));
                    buf[k] = [0u8, 0x7f, b'\r', 0x01][rng.below(4)];
                }
                _ => {}
            }
            let mut rec = CaseRec::new("linear", entry, cfg, 1 << 17, buf);
            rec.place = Placement::End;
            rec.backend = be;
            check_c20(r, ctx, l, &rec)
        });
        // random G1 messages (small) — the invariants hold at every size
        static K: [Kind; 4] = ALL_KINDS;
        let g = GenSpec { kinds: &K, profile: Profile { big: true, ..Profile::LENIENT }, generous_cap: true, cfg_mask: 0x7f, cfg_entry_only: false };
        r.par_random(
            &format!("G1 lenient-weighted messages (occasionally 64 KiB fields), backend {}", backend_name(be)),
            r.amount(1_000_000, 15_000_000),
            170,
            |u: &mut Choice| {
                let mut rec = g1_case(u, "linear", &g);
                rec.backend = be;
                rec
            },
            &|ctx, l, rec| check_c20(r, ctx, l, rec),
        );
        // near-miss blocks: HTAB / false-positive bytes at every period 1..=40 in a 8 KiB value
        r.par_enum(&format!("8 KiB values with HTAB / SP / obs-text at every period 1..=40 and phase, backend {}", backend_name(be)), 40 * 8 * 3, |ctx, l, idx| {
            let period = (idx % 40) as usize + 1;
            let phase = ((idx / 40) % 8) as usize;
            let what = [b'\t', b' ', 0x80][(idx / 320) as usize];
            let mut buf = b"HTTP/1.1 200 OK\r\nA: v".to_vec();
            for i in 0..8192 {
                buf.push(if (i + phase) % period == 0 { what } else { b'x' });
            }
            buf.extend_from_slice(b"\r\n\r\n");
            let mut rec = CaseRec::new("linear", Entry::RespParse, 0, 4, buf);
            rec.backend = be;
            check_c20(r, ctx, l, &rec)
        });
    }
    set_backend(0);
}

trait SpawnDwp {
    fn spawn_dwp(&mut self) -> std::io::Result<std::process::Child>;
}
impl SpawnDwp for std::process::Command {
    fn spawn_dwp(&mut self) -> std::io::Result<std::process::Child> {
        crate::engine::die_with_parent(self).spawn()
    }
}
