//! C13 — results independent of backend, build profile, alignment and thread timing;
//! every supported combination of build switches compiles.

use super::common::*;
use super::p_meta::norm;
use crate::choice::Choice;
use crate::engine::{show_bytes, CaseRec, Local, Runner, Violation};
use crate::gen::Profile;
use crate::real::*;
use proptest::strategy::{Strategy, ValueTree};
use proptest::test_runner::{Config, RngSeed, TestRunner};
use std::path::PathBuf;
use std::process::{Command, Stdio};
use std::sync::atomic::{AtomicUsize, Ordering};
use std::sync::{Arc, Mutex};

/// sense-reversing spin barrier: releases all threads within nanoseconds of each other
struct SpinBarrier {
    n: usize,
    count: AtomicUsize,
    gen: AtomicUsize,
}
impl SpinBarrier {
    fn new(n: usize) -> SpinBarrier {
        SpinBarrier { n, count: AtomicUsize::new(0), gen: AtomicUsize::new(0) }
    }
    fn wait(&self) {
        let g = self.gen.load(Ordering::Acquire);
        if self.count.fetch_add(1, Ordering::AcqRel) + 1 == self.n {
            self.count.store(0, Ordering::Release);
            self.gen.fetch_add(1, Ordering::AcqRel);
        } else {
            let mut spins = 0u32;
            while self.gen.load(Ordering::Acquire) == g {
                spins += 1;
                if spins > 20_000 {
                    std::thread::yield_now();
                } else {
                    std::hint::spin_loop();
                }
            }
        }
    }
}

#[derive(Clone, Debug)]
pub struct Variant {
    pub name: &'static str,
    pub profile: &'static str, // "release" | "dbg"
    pub rustflags: &'static str,
    pub envs: &'static [(&'static str, &'static str)],
    pub no_default_features: bool,
    pub hooks: bool,
}

pub const VARIANTS: [Variant; 16] = [
    Variant { name: "runtime", profile: "release", rustflags: "", envs: &[], no_default_features: false, hooks: false },
    Variant { name: "runtime-hooks", profile: "release", rustflags: "", envs: &[], no_default_features: false, hooks: true },
    Variant { name: "ct-sse42", profile: "release", rustflags: "-C target-feature=+sse4.2", envs: &[], no_default_features: false, hooks: false },
    Variant { name: "ct-avx2", profile: "release", rustflags: "-C target-feature=+avx2", envs: &[], no_default_features: false, hooks: false },
    Variant { name: "ct-sse42-avx2", profile: "release", rustflags: "-C target-feature=+sse4.2,+avx2", envs: &[], no_default_features: false, hooks: false },
    Variant { name: "avx2-runtime-only", profile: "release", rustflags: "-C target-feature=+avx2", envs: &[("CARGO_CFG_HTTPARSE_DISABLE_SIMD_COMPILETIME", "1")], no_default_features: false, hooks: false },
    Variant { name: "simd-disabled", profile: "release", rustflags: "", envs: &[("CARGO_CFG_HTTPARSE_DISABLE_SIMD", "1")], no_default_features: false, hooks: false },
    Variant { name: "no_std", profile: "release", rustflags: "", envs: &[], no_default_features: true, hooks: false },
    Variant { name: "runtime-dbg", profile: "dbg", rustflags: "", envs: &[], no_default_features: false, hooks: false },
    Variant { name: "runtime-hooks-dbg", profile: "dbg", rustflags: "", envs: &[], no_default_features: false, hooks: true },
    Variant { name: "ct-sse42-dbg", profile: "dbg", rustflags: "-C target-feature=+sse4.2", envs: &[], no_default_features: false, hooks: false },
    Variant { name: "ct-avx2-dbg", profile: "dbg", rustflags: "-C target-feature=+avx2", envs: &[], no_default_features: false, hooks: false },
    Variant { name: "ct-sse42-avx2-dbg", profile: "dbg", rustflags: "-C target-feature=+sse4.2,+avx2", envs: &[], no_default_features: false, hooks: false },
    Variant { name: "avx2-runtime-only-dbg", profile: "dbg", rustflags: "-C target-feature=+avx2", envs: &[("CARGO_CFG_HTTPARSE_DISABLE_SIMD_COMPILETIME", "1")], no_default_features: false, hooks: false },
    Variant { name: "simd-disabled-dbg", profile: "dbg", rustflags: "", envs: &[("CARGO_CFG_HTTPARSE_DISABLE_SIMD", "1")], no_default_features: false, hooks: false },
    Variant { name: "no_std-dbg", profile: "dbg", rustflags: "", envs: &[], no_default_features: true, hooks: false },
];

fn c13_dir() -> String {
    format!("{}/target/c13", crate::verif_dir())
}

fn variant_bin(v: &Variant) -> PathBuf {
    PathBuf::from(format!("{}/{}/{}/vdigest", c13_dir(), v.name, v.profile))
}

/// Ok(path) or Err((is_compile_error, message))
pub fn build_variant(v: &Variant) -> Result<PathBuf, (bool, String)> {
    let mut flags = v.rustflags.to_string();
    if v.hooks {
        flags.push_str(" --cfg httparse_verif");
    }
    flags.push_str(" --cap-lints warn");
    let mut c = Command::new("cargo");
    c.current_dir(format!("{}/harness", crate::verif_dir()))
        .args(["build", "--profile", v.profile, "-p", "vdigest", "--offline", "--target-dir"])
        .arg(format!("{}/{}", c13_dir(), v.name))
        .env("RUSTFLAGS", flags.trim())
        .env_remove("CARGO_CFG_HTTPARSE_DISABLE_SIMD")
        .env_remove("CARGO_CFG_HTTPARSE_DISABLE_SIMD_COMPILETIME");
    if v.no_default_features {
        c.arg("--no-default-features");
    }
    for (k, val) in v.envs {
        c.env(k, val);
    }
    let out = crate::engine::run_external(&mut c).map_err(|e| (false, format!("cannot run cargo: {}", e)))?;
    if out.status.success() {
        Ok(variant_bin(v))
    } else {
        let err = String::from_utf8_lossy(&out.stderr).to_string();
        let code = err.contains("error[E") || err.contains("could not compile `httparse`");
        let tail: String = err.lines().filter(|l| l.starts_with("error")).take(4).collect::<Vec<_>>().join(" | ");
        Err((code, tail))
    }
}

fn run_digest(bin: &PathBuf, corpus: &str, cell: Option<u8>, race: bool) -> Result<Vec<u64>, String> {
    let mut c = Command::new(bin);
    if let Some(v) = cell {
        c.arg("--cell").arg(v.to_string());
    }
    if race {
        c.arg("--race");
    }
    c.arg(corpus).stderr(Stdio::piped());
    let out = crate::engine::run_external(&mut c).map_err(|e| format!("{}: {}", bin.display(), e))?;
    if !out.status.success() {
        return Err(format!("{} exited with {:?}: {}", bin.display(), out.status, String::from_utf8_lossy(&out.stderr).lines().last().unwrap_or("")));
    }
    Ok(out.stdout.chunks_exact(8).map(|c| u64::from_le_bytes(c.try_into().unwrap())).collect())
}

pub fn write_corpus(path: &str, cases: &[CaseRec]) {
    let mut data = Vec::new();
    for c in cases {
        data.push(c.entry as u8);
        data.push(c.cfg);
        data.extend_from_slice(&(c.cap.min(65535) as u16).to_le_bytes());
        data.extend_from_slice(&(c.buf.len() as u32).to_le_bytes());
        data.extend_from_slice(&c.buf);
    }
    std::fs::write(path, data).unwrap();
}

fn variant_by_name(n: &str) -> Option<&'static Variant> {
    VARIANTS.iter().find(|v| v.name == n)
}

/// Replay / shrinking: rec.bufs[0] and [1] are the two variant names, aux = [cellA+1 or 0, cellB+1 or 0].
pub fn check(r: &Runner, ctx: &mut Ctx, l: &mut Local, rec: &CaseRec) -> Result<(), Violation> {
    if rec.sub == "race" {
        return check_race_case(r, ctx, l, rec);
    }
    if rec.sub == "alignment" {
        let mut a = rec.clone();
        a.place = crate::arena::Placement::Interior(0);
        let (oa, ob) = (run_rec(ctx, &a), run_rec(ctx, rec));
        let (na, nb) = (super::p_meta::norm(&oa), super::p_meta::norm(&ob));
        if na.st != nb.st || na.method != nb.method || na.path != nb.path || na.version != nb.version || na.code != nb.code || na.reason != nb.reason || na.headers != nb.headers {
            return Err(Violation::new("C13/placement-dependent/in-process", format!("{} at start alignment 0 but {} at placement {:?}", na.st.show(), nb.st.show(), rec.place), rec));
        }
        r.account(l, rec, true, "alignment replay");
        return Ok(());
    }
    if rec.sub != "variant-pair" {
        // lattice / build records are not replayable as cases: re-run the whole check
        return Ok(());
    }
    let names: Vec<String> = rec.bufs.iter().map(|b| String::from_utf8_lossy(b).to_string()).collect();
    let (va, vb) = match (variant_by_name(&names[0]), variant_by_name(&names[1])) {
        (Some(a), Some(b)) => (a, b),
        _ => return Ok(()),
    };
    for v in [va, vb] {
        if !variant_bin(v).exists() {
            let _ = build_variant(v);
        }
    }
    let _ = std::fs::create_dir_all(c13_dir());
    let tmp = format!("{}/one-{}-{:?}.bin", c13_dir(), std::process::id(), std::thread::current().id());
    let mut one = rec.clone();
    one.bufs.clear();
    write_corpus(&tmp, &[one]);
    let cell = |x: u64| if x == 0 { None } else { Some((x - 1) as u8) };
    let da = run_digest(&variant_bin(va), &tmp, cell(rec.aux[0]), false);
    let db = run_digest(&variant_bin(vb), &tmp, cell(rec.aux[1]), false);
    let _ = std::fs::remove_file(&tmp);
    match (da, db) {
        (Ok(a), Ok(b)) => {
            for (v, d) in [(va, &a), (vb, &b)] {
                if d.iter().any(|x| *x != d[0]) {
                    return Err(Violation::new(
                        format!("C13/placement-dependent/{}", v.name),
                        format!("variant {} gives different results for the same bytes at different placements (+0/+1/+19/page-straddle: {:x?}) for {} on {:?}", v.name, d, rec.entry.name(), show_bytes(&rec.buf, 120)),
                        rec,
                    ));
                }
            }
            if a != b {
                return Err(Violation::new(
                    format!("C13/variant-mismatch/{}-vs-{}", va.name, vb.name),
                    format!("build variants {} (cell {:?}) and {} (cell {:?}) give different results for {} on {:?} (placements +0/+1/+19/page-straddle: {:x?} vs {:x?})",
                        va.name, cell(rec.aux[0]), vb.name, cell(rec.aux[1]), rec.entry.name(), show_bytes(&rec.buf, 120), a, b),
                    rec,
                ));
            }
            r.account(l, rec, true, "variant pair");
            Ok(())
        }
        (Err(e), _) | (_, Err(e)) => Err(Violation::new(
            format!("C13/variant-crash/{}-vs-{}", va.name, vb.name),
            format!("a variant failed to run on this case: {}", e),
            rec,
        )),
    }
}

/// placements per corpus case printed by vdigest
const NP: usize = 4;

fn vector_path(buf: &[u8]) -> bool {
    let mut run = 0;
    for &b in buf {
        if b > 0x20 && b != 0x7f {
            run += 1;
            if run >= 16 {
                return true;
            }
        } else {
            run = 0;
        }
    }
    false
}

fn gen_corpus(r: &Runner, n: usize) -> Vec<CaseRec> {
    static K: [Kind; 4] = ALL_KINDS;
    let g = GenSpec { kinds: &K, profile: Profile { big: false, ..Profile::DEFAULT }, generous_cap: false, cfg_mask: 0x7f, cfg_entry_only: false };
    let g2 = GenSpec { kinds: &K, profile: Profile::LENIENT, generous_cap: false, cfg_mask: 0x7f, cfg_entry_only: false };
    let mut runner = TestRunner::new(Config { rng_seed: RngSeed::Fixed(r.seed ^ 0xC13), failure_persistence: None, ..Config::default() });
    let strat = proptest::collection::vec(proptest::num::u8::ANY, 0..=170usize);
    let mut out = Vec::with_capacity(n + 4000);
    for i in 0..n {
        let bytes = strat.new_tree(&mut runner).unwrap().current();
        let mut u = Choice::new(&bytes);
        out.push(g1_case(&mut u, "variant-pair", if i % 3 == 2 { &g2 } else { &g }));
    }
    // structured: lane phases for target / value / reason / name, chunk digits
    for len in 0..=80usize {
        for bad in [None, Some(0x7fu8), Some(0x00), Some(0x09), Some(0x80), Some(0x20)] {
            let mut f: Vec<u8> = (0..len).map(|i| b'a' + (i % 26) as u8).collect();
            if let (Some(b), true) = (bad, len > 0) {
                f[len * 3 / 4] = b;
            }
            out.push(CaseRec::new("variant-pair", Entry::ReqParse, 0, 4, [&b"GET /"[..], &f, b" HTTP/1.1\r\nA: b\r\n\r\n"].concat()));
            out.push(CaseRec::new("variant-pair", Entry::Headers, 0, 4, [&b"Name: "[..], &f, b"\r\n\r\n"].concat()));
            out.push(CaseRec::new("variant-pair", Entry::RespParse, 0, 4, [&b"HTTP/1.1 200 "[..], &f, b"\r\n\r\n"].concat()));
            out.push(CaseRec::new("variant-pair", Entry::Headers, 0, 4, [&f[..], b": v\r\n\r\n"].concat()));
        }
    }
    // long fields (multi-block unrolled loops): lengths 100..=300 step 7, fillers with HTAB / obs-text /
    // boundary bytes, one offender at a pseudo-random position
    for len in (100..=300usize).step_by(7) {
        for (fi, bad) in [(1usize, 0x7fu8), (1, 0x0a), (2, 0x7f), (2, 0x1f), (3, 0x7f), (3, 0x00), (5, 0x7f), (5, 0x20)] {
            for posk in 0..6usize {
                let mut fv = Vec::new();
                crate::gen::fill(&mut fv, len, [0usize, 1, 2, 3, 4, 5][fi], (len * 7 + posk) as u16);
                let mut ft: Vec<u8> = fv.iter().map(|&b| if b == b' ' || b == b'\t' { b'!' } else { b }).collect();
                let pos = (len * (posk + 1) / 7 + posk * 13) % len;
                fv[pos] = bad;
                ft[pos] = bad;
                out.push(CaseRec::new("variant-pair", Entry::Headers, 0, 4, [&b"Name: v"[..], &fv, b"\r\n\r\n"].concat()));
                out.push(CaseRec::new("variant-pair", Entry::ReqParse, 0, 4, [&b"GET /"[..], &ft, b" HTTP/1.1\r\n\r\n"].concat()));
            }
        }
    }
    // very long fields (scanner stages that only start after 256/512 bytes): one offender at every
    // position beyond 480, random in-class filler incl. obs-text, followed by the normal terminator
    for (len, seed) in [(640usize, 1u16), (1100, 2)] {
        for pos in (480..len).step_by(1) {
            let bad = [0x7fu8, 0x0a, 0x00, 0x20][(pos / 2) % 4];
            let mut fv = Vec::new();
            crate::gen::fill(&mut fv, len, 4, seed.wrapping_add((pos / 64) as u16)); // bytes >= 0x80
            for (i, b) in fv.iter_mut().enumerate() {
                if i % 3 != 0 {
                    *b = b'a' + (i % 26) as u8;
                }
            }
            let mut ft = fv.clone();
            // targets must stay valid UTF-8 around the offender: use ASCII + 2-byte sequences
            for i in 0..ft.len() {
                ft[i] = if i % 6 == 0 && i + 1 < ft.len() { 0xc3 } else if i % 6 == 1 { 0xa9 } else { b'a' + (i % 26) as u8 };
            }
            fv[pos] = bad;
            ft[pos] = bad;
            if pos % 2 == 0 {
                out.push(CaseRec::new("variant-pair", Entry::Headers, 0, 4, [&b"Name: v"[..], &fv, b"\r\nB: c\r\n\r\n"].concat()));
            } else {
                out.push(CaseRec::new("variant-pair", Entry::ReqParse, 0, 4, [&b"GET /"[..], &ft, b" HTTP/1.1\r\n\r\n"].concat()));
            }
        }
    }
    // two special bytes at a lane distance (8 / 16 / 32 / 64) inside a long value / target:
    // folds of several vectors (min/max, or/and) go wrong for *pairs* at the same lane
    for dist in [8usize, 16, 32, 64] {
        for (a, b) in [(0x09u8, 0x00u8), (0x09, 0x08), (0x09, 0x1f), (0x80, 0x7f), (0xff, 0x7f), (0x7e, 0x7f), (0x20, 0x0a), (0x09, 0x0d)] {
            for start in [0usize, 1, 7, 13, 31] {
                let len = start + dist + 40;
                let mut fv: Vec<u8> = (0..len).map(|i| b'a' + (i % 26) as u8).collect();
                fv[start] = a;
                fv[start + dist] = b;
                let ft: Vec<u8> = fv.iter().map(|&c| if c == b' ' || c == b'\t' { b'!' } else { c }).collect();
                out.push(CaseRec::new("variant-pair", Entry::Headers, 0, 4, [&b"Name: v"[..], &fv, b"\r\nB: c\r\n\r\n"].concat()));
                out.push(CaseRec::new("variant-pair", Entry::ReqParse, 0, 4, [&b"GET /"[..], &ft, b" HTTP/1.1\r\n\r\n"].concat()));
            }
        }
    }
    for nd in 0..=20 {
        for d in [b'0', b'f', b'F', b'9'] {
            let mut b = vec![d; nd];
            b.extend_from_slice(b"\r\n");
            out.push(CaseRec::new("variant-pair", Entry::Chunk, 0, 0, b));
        }
    }
    out
}

// ---------------------------------------------------------------------------------
// cold-start races (in-process, hook H2)
// ---------------------------------------------------------------------------------

const RACE_MSGS: [(&[u8], Entry); 4] = [
    (b"GET /a/long/target/that/is/longer/than/thirty-two/bytes/so/that/avx2/runs?x=1 HTTP/1.1\r\nHost: example.com with a value longer than thirty-two bytes\r\nB: c\r\n\r\n", Entry::ReqParse),
    (b"HTTP/1.1 200 OK\r\nServer: a value that is longer than thirty-two bytes for the vector path\x7f\r\n\r\n", Entry::RespParse),
    (b"Name: 0123456789abcdef0123456789abcdef0123456789abcdef\r\nOther: v\r\n\r\n", Entry::Headers),
    (b"GET /0123456789abcdef0123456789abcdef\x7f0123456789abcdef HTTP/1.1\r\n\r\n", Entry::ReqParse),
];

fn check_race_case(_r: &Runner, _ctx: &mut Ctx, _l: &mut Local, _rec: &CaseRec) -> Result<(), Violation> {
    // a race is not replayable from its input: the replay re-runs the stress
    Ok(())
}

fn races(r: &Runner, rounds: usize) {
    if !httparse::_verif::simd::HAS_RUNTIME {
        r.note("no runtime dispatch in this build: cold-start race not applicable".into());
        return;
    }
    let t0 = std::time::Instant::now();
    // expected results, single-threaded
    let mut ctx0 = Ctx::new(4096, 64);
    set_backend(0);
    let expected: Vec<_> = RACE_MSGS.iter().map(|(m, e)| norm(&ctx0.run(&Spec::new(*e, 0, 8, m)))).collect();
    let nthreads = 16;
    let barrier = Arc::new(SpinBarrier::new(nthreads));
    let bad: Arc<Mutex<Option<(usize, String)>>> = Arc::new(Mutex::new(None));
    let done = AtomicUsize::new(0);
    std::thread::scope(|s| {
        for t in 0..nthreads {
            let barrier = barrier.clone();
            let bad = bad.clone();
            let expected = &expected;
            let done = &done;
            s.spawn(move || {
                let mut ctx = Ctx::new(4096, 64);
                for round in 0..rounds {
                    if t == 0 {
                        httparse::_verif::simd::set_runtime_feature(0);
                    }
                    barrier.wait();
                    let mi = (t + round) % RACE_MSGS.len();
                    let (m, e) = RACE_MSGS[mi];
                    let n = norm(&ctx.run(&Spec::new(e, 0, 8, m)));
                    if n != expected[mi] {
                        let mut b = bad.lock().unwrap();
                        if b.is_none() {
                            *b = Some((mi, format!("round {} thread {}: got {} expected {}", round, t, n.st.show(), expected[mi].st.show())));
                        }
                    }
                    barrier.wait();
                }
                done.fetch_add(1, Ordering::Relaxed);
            });
        }
    });
    if let Some((mi, d)) = bad.lock().unwrap().clone() {
        let rec = CaseRec::new("race", RACE_MSGS[mi].1, 0, 8, RACE_MSGS[mi].0.to_vec());
        r.report(Violation::new("C13/cold-start-race", format!("a thread racing through its first parse with the feature cell reset got a different result: {}", d), &rec));
    }
    r.stats.evals.fetch_add((rounds * nthreads) as u64, Ordering::Relaxed);
    r.stats.hist.lock().unwrap().insert("cold-start race parses (16 threads x rounds, cell reset each round)".into(), (rounds * nthreads) as u64);
    r.phase_done("cold-start races in-process: 16 threads released by a barrier, feature cell reset to 0 before each round", (rounds * nthreads) as u64, false, t0);
}

// ---------------------------------------------------------------------------------
// the 32 switch combinations
// ---------------------------------------------------------------------------------

fn lattice(r: &Runner) {
    let t0 = std::time::Instant::now();
    let tfs = ["", "+sse4.2", "+avx2", "+sse4.2,+avx2"];
    let mut combos = vec![];
    for std_on in [true, false] {
        for dis in [false, true] {
            for dis_ct in [false, true] {
                for tf in tfs {
                    combos.push((std_on, dis, dis_ct, tf));
                }
            }
        }
    }
    let next = AtomicUsize::new(0);
    let results: Mutex<Vec<(String, Result<(), (bool, String)>)>> = Mutex::new(vec![]);
    std::thread::scope(|s| {
        for _ in 0..8 {
            s.spawn(|| loop {
                let i = next.fetch_add(1, Ordering::Relaxed);
                if i >= combos.len() {
                    break;
                }
                let (std_on, dis, dis_ct, tf) = combos[i];
                let name = format!("std={} disable_simd={} disable_simd_compiletime={} target-feature={}", std_on, dis, dis_ct, if tf.is_empty() { "none" } else { tf });
                let mut c = Command::new("cargo");
                c.current_dir(crate::repo_dir())
                    .args(["check", "--offline", "--target-dir"])
                    .arg(format!("{}/lattice/{}", c13_dir(), i))
                    .env("RUSTFLAGS", if tf.is_empty() { "--cap-lints warn".to_string() } else { format!("-C target-feature={} --cap-lints warn", tf) })
                    .env_remove("CARGO_CFG_HTTPARSE_DISABLE_SIMD")
                    .env_remove("CARGO_CFG_HTTPARSE_DISABLE_SIMD_COMPILETIME");
                if !std_on {
                    c.arg("--no-default-features");
                }
                if dis {
                    c.env("CARGO_CFG_HTTPARSE_DISABLE_SIMD", "1");
                }
                if dis_ct {
                    c.env("CARGO_CFG_HTTPARSE_DISABLE_SIMD_COMPILETIME", "1");
                }
                let res = match crate::engine::run_external(&mut c) {
                    Ok(o) if o.status.success() => Ok(()),
                    Ok(o) => {
                        let err = String::from_utf8_lossy(&o.stderr).to_string();
                        let code = err.contains("error[E") || err.contains("could not compile `httparse`");
                        Err((code, err.lines().filter(|l| l.starts_with("error")).take(3).collect::<Vec<_>>().join(" | ")))
                    }
                    Err(e) => Err((false, e.to_string())),
                };
                results.lock().unwrap().push((name, res));
            });
        }
    });
    let mut ok = 0u64;
    for (name, res) in results.into_inner().unwrap() {
        match res {
            Ok(()) => ok += 1,
            Err((true, msg)) => {
                let rec = CaseRec::new("lattice", Entry::Chunk, 0, 0, name.as_bytes().to_vec());
                r.report(Violation::new("C13/switch-combination-does-not-compile", format!("`cargo check` fails for {}: {}", name, msg), &rec));
            }
            Err((false, msg)) => r.inconclusive.lock().unwrap().push(format!("cargo check for {} could not run: {}", name, msg)),
        }
    }
    r.stats.evals.fetch_add(32, Ordering::Relaxed);
    r.stats.hist.lock().unwrap().insert("switch combinations that compile (of 32)".into(), ok);
    r.phase_done("all 32 switch combinations (std x 2 disable switches x 4 target-feature sets): cargo check", 32, true, t0);
}

pub fn run(r: &Runner) {
    let _ = std::fs::create_dir_all(c13_dir());
    r.exhaustive.store(false, Ordering::Relaxed);
    lattice(r);
    if r.stopped() {
        return;
    }
    races(r, if r.quick() { 20_000 } else { 500_000 });
    if r.stopped() {
        return;
    }
    // build the variants (parallel)
    let t0 = std::time::Instant::now();
    let want: Vec<&Variant> = VARIANTS
        .iter()
        .filter(|v| !r.quick() || v.profile == "release" || matches!(v.name, "runtime-dbg" | "runtime-hooks-dbg" | "simd-disabled-dbg" | "ct-avx2-dbg"))
        .collect();
    let built: Mutex<Vec<(&Variant, PathBuf)>> = Mutex::new(vec![]);
    let next = AtomicUsize::new(0);
    std::thread::scope(|s| {
        for _ in 0..8 {
            s.spawn(|| loop {
                let i = next.fetch_add(1, Ordering::Relaxed);
                if i >= want.len() {
                    break;
                }
                match build_variant(want[i]) {
                    Ok(p) => built.lock().unwrap().push((want[i], p)),
                    Err((true, msg)) => {
                        let rec = CaseRec::new("build", Entry::Chunk, 0, 0, want[i].name.as_bytes().to_vec());
                        r.report(Violation::new(format!("C13/variant-does-not-compile/{}", want[i].name), format!("build variant {} fails to compile: {}", want[i].name, msg), &rec));
                    }
                    Err((false, msg)) => r.inconclusive.lock().unwrap().push(format!("variant {}: {}", want[i].name, msg)),
                }
            });
        }
    });
    r.phase_done(&format!("{} vdigest build variants", want.len()), want.len() as u64, true, t0);
    if r.stopped() || !r.inconclusive.lock().unwrap().is_empty() {
        return;
    }
    let mut built = built.into_inner().unwrap();
    built.sort_by_key(|(v, _)| VARIANTS.iter().position(|x| x.name == v.name));
    // corpus
    let t0 = std::time::Instant::now();
    let cases = gen_corpus(r, r.amount(300_000, 5_000_000) as usize);
    let corpus = format!("{}/corpus.bin", c13_dir());
    write_corpus(&corpus, &cases);
    // in-process alignment independence: the structured part of the corpus (lane phases, long
    // fields, pairs at lane distances) parsed at every start alignment 0..=63 (and ending at /
    // straddling a page boundary) with the host's backend: all results must be identical
    {
        let n_random = r.amount(300_000, 5_000_000) as usize;
        let structured: Vec<&CaseRec> = cases[n_random.min(cases.len())..].iter().filter(|c| c.buf.len() <= 400).collect();
        r.par_enum("structured corpus cases at every start alignment 0..=63, end-abutting and page-straddling placement (in-process, host backend): results must not depend on the placement", structured.len() as u64, |ctx, l, idx| {
            let base = structured[idx as usize];
            let mut first: Option<super::p_meta::Norm> = None;
            for pl in 0..67u8 {
                let mut rec = (*base).clone();
                rec.place = match pl {
                    64 => crate::arena::Placement::End,
                    65 => crate::arena::Placement::Start,
                    66 => crate::arena::Placement::Cross((rec.buf.len() / 2).min(120) as u8),
                    o => crate::arena::Placement::Interior(o),
                };
                let obs = run_rec(ctx, &rec);
                let n = super::p_meta::norm(&obs);
                match &first {
                    None => first = Some(n),
                    Some(f) => {
                        let same = f.st == n.st && f.method == n.method && f.path == n.path && f.version == n.version && f.code == n.code && f.reason == n.reason && f.headers == n.headers;
                        if !same {
                            rec.sub = std::borrow::Cow::Borrowed("alignment");
                            return Err(Violation::new(
                                "C13/placement-dependent/in-process",
                                format!("the same bytes give {} at start alignment 0 but {} at placement {:?} for {} on {:?}", f.st.show(), n.st.show(), rec.place, rec.entry.name(), show_bytes(&rec.buf, 120)),
                                &rec,
                            ));
                        }
                    }
                }
            }
            r.account(l, base, vector_path(&base.buf), "all placements agree");
            Ok(())
        });
        if r.stopped() {
            return;
        }
    }
    let sub_n = 3000.min(cases.len());
    let subcorpus = format!("{}/subcorpus.bin", c13_dir());
    write_corpus(&subcorpus, &cases[..sub_n]);
    // runs: (variant, cell, corpus)
    let has_avx2 = is_x86_feature_detected!("avx2");
    let has_sse = is_x86_feature_detected!("sse4.2");
    let mut runs: Vec<(&Variant, PathBuf, Option<u8>, bool)> = vec![];
    for (v, p) in &built {
        if v.rustflags.contains("avx2") && !has_avx2 || v.rustflags.contains("sse4.2") && !has_sse {
            continue;
        }
        if v.hooks {
            for cell in [0u8, 1, 2, 3] {
                if cell == 1 && !has_avx2 || cell == 2 && !has_sse {
                    continue;
                }
                runs.push((v, p.clone(), Some(cell), false));
            }
            let others: Vec<u8> = if r.quick() { vec![4, 5, 17, 128, 255] } else { (4..=255).collect() };
            for cell in others {
                runs.push((v, p.clone(), Some(cell), true));
            }
        } else {
            runs.push((v, p.clone(), None, false));
        }
    }
    let outputs: Mutex<Vec<(usize, Result<Vec<u64>, String>)>> = Mutex::new(vec![]);
    let next = AtomicUsize::new(0);
    std::thread::scope(|s| {
        for _ in 0..r.threads.min(16) {
            s.spawn(|| loop {
                let i = next.fetch_add(1, Ordering::Relaxed);
                if i >= runs.len() {
                    break;
                }
                let (_, p, cell, sub) = &runs[i];
                let res = run_digest(p, if *sub { &subcorpus } else { &corpus }, *cell, false);
                outputs.lock().unwrap().push((i, res));
            });
        }
    });
    let mut outputs = outputs.into_inner().unwrap();
    outputs.sort_by_key(|x| x.0);
    // reference = first run (variant "runtime", release, no hooks)
    let reference = match &outputs[0].1 {
        Ok(v) => v.clone(),
        Err(e) => {
            r.inconclusive.lock().unwrap().push(format!("reference variant failed: {}", e));
            return;
        }
    };
    if reference.len() != cases.len() * NP {
        r.inconclusive.lock().unwrap().push(format!("reference variant printed {} digests for {} cases", reference.len(), cases.len()));
        return;
    }
    let (rv, _, rcell, _) = &runs[0];
    // "for any buffer alignment": within the reference variant the placements of one case must agree
    if let Some(k) = (0..cases.len()).find(|&k| (1..NP).any(|j| reference[k * NP + j] != reference[k * NP])) {
        let mut rec = cases[k].clone();
        rec.sub = std::borrow::Cow::Borrowed("variant-pair");
        rec.bufs = vec![rv.name.as_bytes().to_vec(), rv.name.as_bytes().to_vec()];
        rec.aux = vec![rcell.map(|c| c as u64 + 1).unwrap_or(0), rcell.map(|c| c as u64 + 1).unwrap_or(0)];
        r.report(Violation::new(
            format!("C13/placement-dependent/{}", rv.name),
            format!("case {}: variant {} gives different results for the same bytes at different placements (+0/+1/+19/page-straddle: {:x?}) for {} on {:?}", k, rv.name, &reference[k * NP..k * NP + NP], rec.entry.name(), show_bytes(&rec.buf, 120)),
            &rec,
        ));
    }
    let mut compared = 0u64;
    for (i, res) in &outputs[1..] {
        let (v, _, cell, sub) = &runs[*i];
        match res {
            Ok(d) => {
                let n = if *sub { sub_n * NP } else { reference.len() };
                if d.len() != n {
                    r.inconclusive.lock().unwrap().push(format!("variant {} printed {} digests, expected {}", v.name, d.len(), n));
                    continue;
                }
                compared += n as u64;
                if let Some(k) = (0..n).find(|&k| d[k] != reference[k]) {
                    let mut rec = cases[k / NP].clone();
                    rec.sub = std::borrow::Cow::Borrowed("variant-pair");
                    rec.bufs = vec![rv.name.as_bytes().to_vec(), v.name.as_bytes().to_vec()];
                    rec.aux = vec![rcell.map(|c| c as u64 + 1).unwrap_or(0), cell.map(|c| c as u64 + 1).unwrap_or(0)];
                    r.report(Violation::new(
                        format!("C13/variant-mismatch/{}-vs-{}", rv.name, v.name),
                        format!("case {} (alignment index {}): variant {} (cell {:?}) differs from {} for {} on {:?}", k / NP, k % NP, v.name, cell, rv.name, rec.entry.name(), show_bytes(&rec.buf, 120)),
                        &rec,
                    ));
                }
            }
            Err(e) => {
                // a crash of a variant on the corpus: find nothing more precise here
                let rec = CaseRec::new("variant-crash", Entry::Chunk, 0, 0, v.name.as_bytes().to_vec());
                r.report(Violation::new(format!("C13/variant-crash/{}", v.name), format!("variant {} (cell {:?}) failed on the corpus: {}", v.name, cell, e), &rec));
            }
        }
    }
    // accounting: every case is one evaluation per run; non-trivial = takes a vector path
    let mut l = Local { counting: true, sample_budget: 6, ..Local::default() };
    for c in &cases {
        let nt = vector_path(&c.buf);
        r.account(&mut l, c, nt, "corpus case, parsed by every variant at 4 placements (64-aligned +0/+1/+19, and straddling a 4 KiB page boundary)");
    }
    l.evals = 0;
    r.stats.evals.fetch_add(compared + reference.len() as u64, Ordering::Relaxed);
    r.stats.nontrivial.fetch_add(l.nontrivial, Ordering::Relaxed);
    {
        let mut s = r.stats.samples.lock().unwrap();
        for v in l.samples.drain(..) {
            s.push(v);
        }
        let mut h = r.stats.hist.lock().unwrap();
        h.insert("variant runs compared with the reference".into(), outputs.len() as u64 - 1);
        h.insert("corpus cases".into(), cases.len() as u64);
        h.insert("digests compared".into(), compared);
    }
    r.note(format!("variants run: {:?}", runs.iter().map(|(v, _, c, s)| format!("{}{}{}", v.name, c.map(|c| format!(":cell{}", c)).unwrap_or_default(), if *s { ":sub" } else { "" })).collect::<Vec<_>>()));
    r.phase_done("shared corpus parsed by every build variant at 4 placements (64-aligned +0/+1/+19, and straddling a 4 KiB page boundary); per-case result hashes compared with the reference variant", cases.len() as u64 * runs.len() as u64 * NP as u64, false, t0);
    // fresh-process cold-start races
    let t0 = std::time::Instant::now();
    if let Some((_, hooks_bin)) = built.iter().find(|(v, _)| v.name == "runtime") {
        let racefile = format!("{}/race.bin", c13_dir());
        let rc: Vec<CaseRec> = RACE_MSGS.iter().map(|(m, e)| CaseRec::new("race", *e, 0, 8, m.to_vec())).collect();
        write_corpus(&racefile, &rc);
        let n = if r.quick() { 24 } else { 400 };
        let mut expect: Option<Vec<u64>> = None;
        for i in 0..n {
            match run_digest(hooks_bin, &racefile, None, true) {
                Ok(d) => {
                    // thread t parses case t % 4: digests must repeat with period 4
                    let ok = (0..16).all(|t| d[t] == d[t % 4]);
                    let same = expect.as_ref().map(|e| e == &d).unwrap_or(true);
                    if !ok || !same {
                        r.report(Violation::new("C13/cold-start-race", format!("fresh process {}: 16 threads racing through their first parse disagree: {:x?}", i, d), &rc[0]));
                        break;
                    }
                    expect = Some(d);
                }
                Err(e) => {
                    r.report(Violation::new("C13/cold-start-race-crash", format!("fresh process {} failed: {}", i, e), &rc[0]));
                    break;
                }
            }
        }
        r.stats.evals.fetch_add(n as u64 * 16, Ordering::Relaxed);
        r.phase_done("cold-start races in fresh processes (production build, no hooks): 16 threads released into their first parse", n as u64, false, t0);
    }
}
