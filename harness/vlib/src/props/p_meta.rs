//! Model-free properties: C02 (streaming consistency), C03 (head framing), C04a
//! (zero-copy pointer ranges), C05 (field hygiene), C15 (conservative options), C16
//! (entry points agree), C17 (header storage). Oracles: metamorphic / differential
//! relations and predicates written from the statements.

use super::common::*;
use crate::arena::Placement;
use crate::choice::Choice;
use crate::engine::{mix, show_bytes, CaseRec, Local, Runner, Violation};
use crate::gen::{self, Profile, HDR_ALPHABET, HDR_CONTEXTS};
use crate::model::{is_tchar, is_target_byte};
use crate::real::*;

/// Result normalised to offsets into the buffer (so that runs on different copies can
/// be compared).
#[derive(Clone, Debug, PartialEq, Eq)]
pub struct Norm {
    pub st: St,
    pub method: Option<(usize, usize)>,
    pub path: Option<(usize, usize)>,
    pub version: Option<u8>,
    pub code: Option<u16>,
    /// None = not set; Some(None) = empty string; Some(Some(range)) otherwise
    pub reason: Option<Option<(usize, usize)>>,
    pub headers: Vec<((usize, usize), Option<(usize, usize)>)>,
    pub chunk: Option<u64>,
    /// some slice was outside the buffer (then offsets are meaningless)
    pub outside: bool,
}

pub fn norm(obs: &Obs) -> Norm {
    let mut outside = false;
    let mut rng = |s: Sl| -> (usize, usize) {
        match obs.off(s) {
            Some(o) => (o, s.len),
            None => {
                if s.len != 0 {
                    outside = true;
                }
                (usize::MAX, s.len)
            }
        }
    };
    let method = obs.method.map(&mut rng);
    let path = obs.path.map(&mut rng);
    let reason = obs.reason.map(|s| if s.len == 0 { None } else { Some(rng(s)) });
    let mut headers = Vec::with_capacity(obs.headers.len());
    for (n, v) in &obs.headers {
        let nn = if n.len == 0 { (usize::MAX, 0) } else { rng(*n) };
        let vv = if v.len == 0 { None } else { Some(rng(*v)) };
        headers.push((nn, vv));
    }
    Norm {
        st: obs.st.clone(),
        method,
        path,
        version: obs.version,
        code: obs.code,
        reason,
        headers,
        chunk: obs.chunk_size,
        outside,
    }
}

fn viol(sig: &str, detail: String, rec: &CaseRec) -> Violation {
    Violation::new(sig.to_string(), format!("{} [{} cfg={:#04x} cap={}]", detail, rec.entry.name(), rec.cfg, rec.cap), rec)
}

fn panic_viol(id: &str, obs: &Obs, rec: &CaseRec) -> Option<Violation> {
    if let St::Panic(m) = &obs.st {
        Some(viol(&format!("{}/panic", id), format!("parser panicked: {}", m), rec))
    } else {
        None
    }
}

// =================================================================================
// C02
// =================================================================================

pub fn check_c02(r: &Runner, ctx: &mut Ctx, l: &mut Local, rec: &CaseRec) -> Result<(), Violation> {
    if rec.sub == "tail" {
        return check_c02_tail(r, ctx, l, rec);
    }
    let b = &rec.buf;
    let len = b.len();
    // split points: all for len <= 400, else 64 spread + the last 16
    let ks: Vec<usize> = if len <= 400 {
        (0..=len).collect()
    } else {
        let mut v: Vec<usize> = (0..64).map(|i| i * len / 64).collect();
        v.extend(len - 16..=len);
        v.sort();
        v.dedup();
        v
    };
    let mut first_decided: Option<(usize, Norm)> = None;
    let mut partial_fields: Vec<(usize, Norm)> = vec![];
    let mut last: Option<Norm> = None;
    for &k in &ks {
        let mut sub = rec.clone();
        sub.buf.truncate(k);
        sub.place = Placement::End;
        let obs = run_rec(ctx, &sub);
        if let Some(v) = panic_viol("C02", &obs, &sub) {
            return Err(v);
        }
        let n = norm(&obs);
        match (&first_decided, &n.st) {
            (None, St::Partial) => {
                if n.method.is_some() || n.version.is_some() {
                    partial_fields.push((k, n.clone()));
                }
            }
            (None, _) => {
                first_decided = Some((k, n.clone()));
            }
            (Some((k0, n0)), _) => {
                // (a) stable under extension
                let same = match (&n0.st, &n.st) {
                    (St::Err(a), St::Err(b)) => a == b,
                    (St::Complete(_), St::Complete(_)) => n0 == &n,
                    _ => false,
                };
                if !same {
                    return Err(viol(
                        &format!("C02/unstable/{}-then-{}", n0.st.class(), n.st.class()),
                        format!(
                            "prefix of length {} gives {}, but the longer prefix of length {} gives {}{}",
                            k0, n0.st.show(), k, n.st.show(),
                            if n0.st == n.st { " with different fields/headers" } else { "" }
                        ),
                        rec,
                    ));
                }
            }
        }
        last = Some(n);
    }
    // (b) prefixes shorter than n of an accepted head are Partial — implied by (a), stated
    // explicitly: the first decided prefix of a Complete(n) has length >= n.
    if let Some((k0, n0)) = &first_decided {
        if let St::Complete(n) = n0.st {
            if *k0 < n {
                return Err(viol("C02/complete-offset-beyond-prefix", format!("prefix of length {} reports Complete({})", k0, n), rec));
            }
            // (c) fields reported with Partial equal the final ones
            for (k, p) in &partial_fields {
                let bad = (p.method.is_some() && p.method != n0.method)
                    || (p.path.is_some() && p.path != n0.path)
                    || (p.version.is_some() && p.version != n0.version)
                    || (p.code.is_some() && p.code != n0.code)
                    || (p.reason.is_some() && p.reason != n0.reason);
                if bad {
                    return Err(viol(
                        "C02/partial-field-changes",
                        format!("prefix of length {} is Partial with fields {:?}/{:?}/{:?}/{:?}/{:?}, final Complete has {:?}/{:?}/{:?}/{:?}/{:?}",
                            k, p.method, p.path, p.version, p.code, p.reason, n0.method, n0.path, n0.version, n0.code, n0.reason),
                        rec,
                    ));
                }
            }
        }
    }
    let kstar = first_decided.as_ref().map(|x| x.0);
    if l.counting {
        match &last {
            Some(n) => l.bump(status_hist_key(&n.st)),
            None => {}
        }
        l.bump(kind_hist_key(rec.kind()));
        l.add("prefix-parses", ks.len() as u64);
        if !partial_fields.is_empty() {
            l.bump("bases-with-fields-reported-on-Partial");
        }
    }
    let nt = matches!(kstar, Some(k) if k >= 8);
    r.account(l, rec, nt, &format!("first decided prefix: {:?}", kstar));
    Ok(())
}

// =================================================================================
// C03
// =================================================================================

/// Independent linear scan. Returns (offset where the header block starts if the start
/// line is complete, list of (line_start, line_end_excl_LF, after_LF)).
fn scan_lines(b: &[u8], kind: Kind) -> Option<(usize, Vec<(usize, usize, usize)>)> {
    let mut i = 0;
    if kind != Kind::Headers {
        loop {
            if i < b.len() && b[i] == b'\n' {
                i += 1;
            } else if i + 1 < b.len() && b[i] == b'\r' && b[i + 1] == b'\n' {
                i += 2;
            } else {
                break;
            }
        }
        // the start line ends at the first LF
        let lf = b[i..].iter().position(|&c| c == b'\n')?;
        i += lf + 1;
    }
    let hs = i;
    let mut lines = vec![];
    let mut p = i;
    while let Some(lf) = b[p..].iter().position(|&c| c == b'\n') {
        lines.push((p, p + lf, p + lf + 1));
        p += lf + 1;
    }
    Some((hs, lines))
}

fn is_empty_line(b: &[u8], s: usize, e: usize) -> bool {
    e == s || (e == s + 1 && b[s] == b'\r')
}

pub fn check_c03(r: &Runner, ctx: &mut Ctx, l: &mut Local, rec: &CaseRec) -> Result<(), Violation> {
    let obs = run_rec(ctx, rec);
    if let Some(v) = panic_viol("C03", &obs, rec) {
        return Err(v);
    }
    let b = &rec.buf;
    let kind = rec.kind();
    let mut nt = false;
    if kind == Kind::Chunk {
        let crlf = b.windows(2).position(|w| w == b"\r\n");
        match obs.st {
            St::Complete(n) => {
                if n > b.len() || crlf.map(|p| p + 2) != Some(n) {
                    return Err(viol("C03/chunk-offset", format!("Complete({}) but the first CRLF ends at {:?}", n, crlf.map(|p| p + 2)), rec));
                }
                nt = n < b.len() || n > 3;
            }
            St::Partial => {
                if crlf.is_some() {
                    return Err(viol("C03/chunk-partial-with-crlf", format!("Partial although a CRLF is in the buffer at {}", crlf.unwrap()), rec));
                }
                nt = b.len() >= 2;
            }
            _ => {}
        }
    } else {
        let space_first = rec.cfg & C_SPACE_BEFORE_FIRST != 0 && kind != Kind::Headers;
        match obs.st {
            St::Complete(n) => {
                if n > b.len() {
                    return Err(viol("C03/offset-beyond-buffer", format!("Complete({}) with a buffer of {} bytes", n, b.len()), rec));
                }
                let (hs, lines) = match scan_lines(b, kind) {
                    Some(x) => x,
                    None => return Err(viol("C03/complete-without-start-line-end", format!("Complete({}) but no LF ends the start line", n), rec)),
                };
                // lines that begin before the first stored header's name may have their
                // leading SP/HTAB disregarded (only with the option)
                let h0 = obs.headers.first().and_then(|(nm, _)| obs.off(*nm)).unwrap_or(n);
                // With folding effective, a whitespace-led line after a header line may be
                // a continuation rather than a line start, so under the space-before-first
                // option a whitespace-only line is then only a *possible* terminator.
                let fold = kind == Kind::Response && rec.cfg & C_MULTILINE != 0;
                let mut expected = None;
                let mut optional: Vec<usize> = vec![];
                for &(s, e, after) in &lines {
                    if is_empty_line(b, s, e) {
                        expected = Some(after);
                        break;
                    }
                    if space_first && s <= h0 {
                        let mut s2 = s;
                        while s2 < e && (b[s2] == b' ' || b[s2] == b'\t') {
                            s2 += 1;
                        }
                        if is_empty_line(b, s2, e) {
                            if fold {
                                optional.push(after);
                            } else {
                                expected = Some(after);
                                break;
                            }
                        }
                    }
                }
                if expected != Some(n) && !optional.contains(&n) {
                    return Err(viol(
                        "C03/offset-not-at-first-empty-line",
                        format!("Complete({}) but the first empty line after the start line (header block starts at {}) ends at {:?} (whitespace-only candidates under the options: {:?})", n, hs, expected, optional),
                        rec,
                    ));
                }
                nt = !obs.headers.is_empty() || lines.len() > 1 || n < b.len();
            }
            St::Partial => {
                if let Some((_, lines)) = scan_lines(b, kind) {
                    for &(s, e, _) in &lines {
                        if is_empty_line(b, s, e) {
                            return Err(viol(
                                "C03/partial-with-empty-line",
                                format!("Partial although an empty line is in the buffer at offset {}", s),
                                rec,
                            ));
                        }
                    }
                    nt = !lines.is_empty();
                }
            }
            _ => {}
        }
    }
    account_std(r, l, rec, &obs, nt, &obs.st.show());
    Ok(())
}

// =================================================================================
// C04 (a)
// =================================================================================

pub fn check_c04(r: &Runner, ctx: &mut Ctx, l: &mut Local, rec: &CaseRec) -> Result<(), Violation> {
    let obs = run_rec(ctx, rec);
    if let Some(v) = panic_viol("C04", &obs, rec) {
        return Err(v);
    }
    let lo = obs.buf_ptr;
    let hi = obs.buf_ptr + obs.buf_len;
    let limit = match obs.st {
        St::Complete(n) => obs.buf_ptr + n.min(obs.buf_len),
        _ => hi,
    };
    let mut seq: Vec<(&'static str, usize, Sl)> = vec![];
    if let Some(s) = obs.method {
        seq.push(("method", 0, s));
    }
    if let Some(s) = obs.path {
        seq.push(("path", 0, s));
    }
    if let Some(s) = obs.reason {
        seq.push(("reason", 0, s));
    }
    for (i, (n, v)) in obs.headers.iter().enumerate() {
        seq.push(("header-name", i, *n));
        seq.push(("header-value", i, *v));
    }
    let mut prev_end = lo;
    let mut prev_what = ("buffer start", 0usize);
    for (what, i, s) in &seq {
        if s.len == 0 {
            continue; // zero-length slices may live anywhere
        }
        if s.ptr < lo || s.ptr + s.len > hi {
            return Err(viol(
                &format!("C04/outside-buffer/{}", what),
                format!("{} {} = [{:#x},+{}) is not inside the buffer [{:#x},+{}) (status {})", what, i, s.ptr, s.len, lo, obs.buf_len, obs.st.show()),
                rec,
            ));
        }
        if let St::Complete(n) = obs.st {
            if s.ptr + s.len > limit {
                return Err(viol(
                    &format!("C04/beyond-consumed-head/{}", what),
                    format!("{} {} ends at offset {} but the result is Complete({})", what, i, s.ptr + s.len - lo, n),
                    rec,
                ));
            }
            if s.ptr < prev_end {
                return Err(viol(
                    &format!("C04/order/{}", what),
                    format!("{} {} starts at offset {} before the end ({}) of the preceding {} {}", what, i, s.ptr - lo, prev_end - lo, prev_what.0, prev_what.1),
                    rec,
                ));
            }
            prev_end = s.ptr + s.len;
            prev_what = (what, *i);
        }
    }
    let nt = obs.headers.iter().any(|(_, v)| v.len > 0)
        || (!matches!(obs.st, St::Complete(_)) && (obs.method.is_some() || obs.version.is_some()));
    account_std(r, l, rec, &obs, nt, &obs.st.show());
    Ok(())
}

// =================================================================================
// C05
// =================================================================================

fn is_value_byte_stmt(b: u8) -> bool {
    matches!(b, 0x09 | 0x20..=0x7E | 0x80..=0xFF)
}

pub fn check_c05(r: &Runner, ctx: &mut Ctx, l: &mut Local, rec: &CaseRec) -> Result<(), Violation> {
    let obs = run_rec(ctx, rec);
    if let Some(v) = panic_viol("C05", &obs, rec) {
        return Err(v);
    }
    let b = &rec.buf;
    let kind = rec.kind();
    // every &str handed out, on every outcome, is valid UTF-8
    for (what, bytes) in [("method", &obs.method_b), ("path", &obs.path_b), ("reason", &obs.reason_b)] {
        if let Some(x) = bytes {
            if std::str::from_utf8(x).is_err() {
                return Err(viol(&format!("C05/invalid-utf8/{}", what), format!("{} is not valid UTF-8: {}", what, show_bytes(x, 80)), rec));
            }
        }
    }
    for (i, (n, _)) in obs.headers_b.iter().enumerate() {
        if std::str::from_utf8(n).is_err() {
            return Err(viol("C05/invalid-utf8/header-name", format!("header {} name is not valid UTF-8: {}", i, show_bytes(n, 80)), rec));
        }
    }
    let mut nt = false;
    if let St::Complete(n) = obs.st {
        if kind == Kind::Request {
            let m = obs.method_b.as_deref().unwrap_or(b"");
            if m.is_empty() || !m.iter().all(|&c| is_tchar(c)) {
                return Err(viol("C05/method-class", format!("method {:?} is not a non-empty tchar run", show_bytes(m, 80)), rec));
            }
            let p = obs.path_b.as_deref().unwrap_or(b"");
            if p.is_empty() || !p.iter().all(|&c| is_target_byte(c)) {
                return Err(viol("C05/path-class", format!("path {:?} is empty or has a byte outside 0x21-0x7E/0x80-0xFF", show_bytes(p, 80)), rec));
            }
            if !matches!(obs.version, Some(0) | Some(1)) {
                return Err(viol("C05/version", format!("version {:?}", obs.version), rec));
            }
            if p.iter().any(|&c| c >= 0x80) {
                nt = true;
            }
        }
        if kind == Kind::Response {
            if !matches!(obs.version, Some(0) | Some(1)) {
                return Err(viol("C05/version", format!("version {:?}", obs.version), rec));
            }
            // re-read the three digits from the buffer
            let mut i = 0;
            loop {
                if i < b.len() && b[i] == b'\n' {
                    i += 1;
                } else if i + 1 < b.len() && b[i] == b'\r' && b[i + 1] == b'\n' {
                    i += 2;
                } else {
                    break;
                }
            }
            i += 8;
            while i < b.len() && b[i] == b' ' {
                i += 1;
            }
            let digits = b.get(i..i + 3).unwrap_or(b"");
            let ok = digits.len() == 3 && digits.iter().all(|c| c.is_ascii_digit());
            let val = if ok { digits.iter().fold(0u16, |a, c| a * 10 + (c - b'0') as u16) } else { 0 };
            if !ok || obs.code != Some(val) {
                return Err(viol("C05/code", format!("code {:?} but the bytes at the code position are {:?}", obs.code, show_bytes(digits, 8)), rec));
            }
            let rs = obs.reason_b.as_deref().unwrap_or(b"");
            if !rs.iter().all(|&c| matches!(c, 0x09 | 0x20..=0x7E)) {
                return Err(viol("C05/reason-class", format!("reason {:?} has a byte outside HTAB/SP/0x21-0x7E", show_bytes(rs, 80)), rec));
            }
            if rs.contains(&b'\t') {
                nt = true;
            }
        }
        if kind != Kind::Chunk {
            let fold_ok = kind == Kind::Response && rec.cfg & C_MULTILINE != 0 && rec.entry.takes_cfg();
            for (i, (nm, v)) in obs.headers_b.iter().enumerate() {
                if nm.is_empty() || !nm.iter().all(|&c| is_tchar(c)) {
                    return Err(viol("C05/header-name-class", format!("header {} name {:?} is not a non-empty tchar run", i, show_bytes(nm, 80)), rec));
                }
                if let (Some(&f), Some(&la)) = (v.first(), v.last()) {
                    if f == b' ' || f == b'\t' || la == b' ' || la == b'\t' {
                        return Err(viol("C05/value-not-trimmed", format!("header {} value {:?} starts or ends with SP/HTAB", i, show_bytes(v, 80)), rec));
                    }
                }
                for (j, &c) in v.iter().enumerate() {
                    if is_value_byte_stmt(c) {
                        continue;
                    }
                    let ok = fold_ok
                        && ((c == b'\n' && matches!(v.get(j + 1), Some(b' ') | Some(b'\t')))
                            || (c == b'\r' && v.get(j + 1) == Some(&b'\n')));
                    if !ok {
                        return Err(viol(
                            "C05/value-class",
                            format!("header {} value {:?} has byte {:#04x} at {} (folding {})", i, show_bytes(v, 80), c, j, if fold_ok { "on" } else { "off" }),
                            rec,
                        ));
                    }
                    nt = true;
                }
                if v.iter().any(|&c| c >= 0x80 || c == b'\t') {
                    nt = true;
                }
            }
            // the consumed head has no NUL and no CR that is not followed by LF
            let head = &b[..n.min(b.len())];
            for (j, &c) in head.iter().enumerate() {
                if c == 0 {
                    return Err(viol("C05/nul-in-head", format!("Complete({}) but buf[{}] is NUL", n, j), rec));
                }
                if c == b'\r' && head.get(j + 1) != Some(&b'\n') {
                    return Err(viol("C05/bare-cr-in-head", format!("Complete({}) but buf[{}] is a CR not followed by LF", n, j), rec));
                }
            }
        }
        // swept/mutated byte inside the consumed head
        if let Some(&pos) = rec.aux.first() {
            if (pos as usize) < n {
                nt = true;
            }
        }
    }
    account_std(r, l, rec, &obs, nt, &obs.st.show());
    Ok(())
}

// =================================================================================
// C15
// =================================================================================

/// part 1: rec.buf under rec.cfg vs. under cfg 0 (when the default result is Complete);
/// part 2 (sub = "c15-other-kind"): rec.cfg vs rec.aux[0] differing only in other-kind bits.
pub fn check_c15(r: &Runner, ctx: &mut Ctx, l: &mut Local, rec: &CaseRec) -> Result<(), Violation> {
    let kind = rec.kind();
    if rec.sub == "c15-other-kind" {
        let mut other = rec.clone();
        other.cfg = rec.aux[0] as u8;
        let a = run_rec(ctx, rec);
        let b2 = run_rec(ctx, &other);
        if let Some(v) = panic_viol("C15", &a, rec).or_else(|| panic_viol("C15", &b2, &other)) {
            return Err(v);
        }
        let (na, nb) = (norm(&a), norm(&b2));
        if na != nb {
            return Err(viol(
                &format!("C15/other-kind-option-has-effect/{}", kind.name()),
                format!("cfg {:#04x} gives {} ({} headers) but cfg {:#04x}, differing only in other-kind options (bits {:#04x}), gives {} ({} headers)",
                    rec.cfg, na.st.show(), na.headers.len(), other.cfg, rec.cfg ^ other.cfg, nb.st.show(), nb.headers.len()),
                rec,
            ));
        }
        let nt = a.version.is_some() || a.method.is_some();
        account_std(r, l, rec, &a, nt, "other-kind pair");
        return Ok(());
    }
    // part 1: all 128 configs for a default-Complete buffer
    let mut d = rec.clone();
    d.cfg = 0;
    let od = run_rec(ctx, &d);
    if let Some(v) = panic_viol("C15", &od, &d) {
        return Err(v);
    }
    let nd = norm(&od);
    let mut nt = false;
    if let St::Complete(_) = nd.st {
        nt = !nd.headers.is_empty();
        for cfg in 1..128u8 {
            let mut c = rec.clone();
            c.cfg = cfg;
            let oc = run_rec(ctx, &c);
            if let Some(v) = panic_viol("C15", &oc, &c) {
                return Err(v);
            }
            let mut nc = norm(&oc);
            let mut expect = nd.clone();
            if kind == Kind::Response && cfg & C_MULTISPACE_RESP != 0 {
                // sole exception: leading spaces are stripped from the reason phrase
                if let Some(Some((o, len))) = nd.reason {
                    let bytes = &rec.buf[o..o + len];
                    let lead = bytes.iter().take_while(|&&c| c == b' ').count();
                    expect.reason = Some(if lead == len { None } else { Some((o + lead, len - lead)) });
                }
                let _ = &mut nc;
            }
            if nc != expect {
                return Err(viol(
                    &format!("C15/default-accepted-changes/{}", kind.name()),
                    format!("default config gives {} with {} headers; config {:#04x} gives {} with {} headers / different fields (reason {:?} vs {:?})",
                        nd.st.show(), nd.headers.len(), cfg, nc.st.show(), nc.headers.len(), expect.reason, nc.reason),
                    &c,
                ));
            }
        }
        if l.counting {
            l.add("config-runs", 127);
        }
    }
    account_std(r, l, rec, &od, nt, "default-accepted x 128 configs");
    Ok(())
}

// =================================================================================
// C16
// =================================================================================

fn written_slots(o: &Obs) -> Vec<(usize, [usize; 4])> {
    // words that point into the buffer are normalised to offsets (tagged), so that runs
    // on different copies of the buffer compare equal
    let normw = |w: usize| -> usize {
        if w >= o.buf_ptr && w <= o.buf_ptr + o.buf_len && o.buf_ptr != 0 {
            (w - o.buf_ptr) | (1 << 62)
        } else {
            w
        }
    };
    o.array_raw
        .iter()
        .zip(o.array_before.iter())
        .enumerate()
        .filter(|(_, (a, b))| a != b)
        .map(|(i, (a, _))| (i, [normw(a[0]), normw(a[1]), normw(a[2]), normw(a[3])]))
        .collect()
}

fn written_slots_raw(o: &Obs) -> Vec<(usize, [usize; 4])> {
    o.array_raw
        .iter()
        .zip(o.array_before.iter())
        .enumerate()
        .filter(|(_, (a, b))| a != b)
        .map(|(i, (a, _))| (i, *a))
        .collect()
}

pub fn check_c16(r: &Runner, ctx: &mut Ctx, l: &mut Local, rec: &CaseRec) -> Result<(), Violation> {
    let kind = rec.kind();
    let nt;
    if rec.sub == "c16-headers-vs-message" {
        // parse_headers(h) vs request/response whose start line is followed by h
        let h = &rec.buf;
        let mut hr = rec.clone();
        hr.entry = Entry::Headers;
        hr.cfg = 0;
        let oh = run_rec(ctx, &hr);
        if let Some(v) = panic_viol("C16", &oh, &hr) {
            return Err(v);
        }
        let nh = norm(&oh);
        const STARTS: [(&[u8], Entry); 6] = [
            (b"GET / HTTP/1.1\r\n", Entry::ReqParse),
            (b"POST /x HTTP/1.0\n", Entry::ReqParse),
            (b"HTTP/1.1 200 OK\r\n", Entry::RespParse),
            (b"HTTP/1.0 204\n", Entry::RespParse),
            (b"HTTP/1.1 200 \r\n", Entry::RespParse),
            (b"\r\nGET /abc HTTP/1.1\n", Entry::ReqParse),
        ];
        for (sl, entry) in STARTS.iter() {
            let mut m = rec.clone();
            m.entry = *entry;
            m.cfg = 0;
            m.buf = [sl, &h[..]].concat();
            let om = run_rec(ctx, &m);
            if let Some(v) = panic_viol("C16", &om, &m) {
                return Err(v);
            }
            let nm = norm(&om);
            let shift = sl.len();
            let st_ok = match (&nh.st, &nm.st) {
                (St::Complete(a), St::Complete(b)) => a + shift == *b,
                (x, y) => x == y,
            };
            let hdr_ok = !matches!(nh.st, St::Complete(_))
                || (nh.headers.len() == nm.headers.len()
                    && nh.headers.iter().zip(nm.headers.iter()).all(|(a, b)| {
                        a.0 .0 + shift == b.0 .0
                            && a.0 .1 == b.0 .1
                            && match (a.1, b.1) {
                                (None, None) => true,
                                (Some(x), Some(y)) => x.0 + shift == y.0 && x.1 == y.1,
                                _ => false,
                            }
                    }));
            if !st_ok || !hdr_ok {
                return Err(viol(
                    &format!("C16/parse_headers-vs-{}", entry.kind().name()),
                    format!("parse_headers gives {} with {} headers; {} after start line {:?} gives {} with {} headers (offset shift {})",
                        nh.st.show(), nh.headers.len(), entry.name(), show_bytes(sl, 40), nm.st.show(), nm.headers.len(), shift),
                    rec,
                ));
            }
        }
        nt = rec.buf.contains(&b':');
        account_std(r, l, rec, &oh, nt, "parse_headers vs message");
        return Ok(());
    }
    if rec.sub == "c16-split-message" {
        // parse_headers(h) vs the message's own start line followed by h
        let b = &rec.buf;
        let mut i = 0;
        loop {
            if b[i..].starts_with(b"\r\n") {
                i += 2;
            } else if b[i..].starts_with(b"\n") {
                i += 1;
            } else {
                break;
            }
        }
        let Some(lf) = b[i..].iter().position(|&c| c == b'\n').map(|p| p + i) else {
            r.account(l, rec, false, "");
            return Ok(());
        };
        let (sl, h) = b.split_at(lf + 1);
        // the start line must be acceptable on its own
        let mut alone = rec.clone();
        alone.cfg = 0;
        alone.buf = [sl, b"\r\n"].concat();
        let oa = run_rec(ctx, &alone);
        if norm(&oa).st != St::Complete(sl.len() + 2) {
            if l.counting {
                l.bump("split: start line not accepted on its own");
            }
            r.account(l, rec, false, "");
            return Ok(());
        }
        let mut hr = rec.clone();
        hr.entry = Entry::Headers;
        hr.cfg = 0;
        hr.buf = h.to_vec();
        let oh = run_rec(ctx, &hr);
        if let Some(v) = panic_viol("C16", &oh, &hr) {
            return Err(v);
        }
        let nh = norm(&oh);
        let mut m = rec.clone();
        m.cfg = 0;
        let om = run_rec(ctx, &m);
        if let Some(v) = panic_viol("C16", &om, &m) {
            return Err(v);
        }
        let nm = norm(&om);
        let shift = sl.len();
        let st_ok = match (&nh.st, &nm.st) {
            (St::Complete(a), St::Complete(b)) => a + shift == *b,
            (x, y) => x == y,
        };
        let hdr_ok = !matches!(nh.st, St::Complete(_))
            || (nh.headers.len() == nm.headers.len()
                && nh.headers.iter().zip(nm.headers.iter()).all(|(a, b)| {
                    a.0 .0 + shift == b.0 .0
                        && a.0 .1 == b.0 .1
                        && match (a.1, b.1) {
                            (None, None) => true,
                            (Some(x), Some(y)) => x.0 + shift == y.0 && x.1 == y.1,
                            _ => false,
                        }
                }));
        if !st_ok || !hdr_ok {
            return Err(viol(
                &format!("C16/parse_headers-vs-{}", rec.entry.kind().name()),
                format!("parse_headers on the part after the start line gives {} with {} headers; {} on the whole message (start line {:?}, accepted on its own) gives {} with {} headers (offset shift {})",
                    nh.st.show(), nh.headers.len(), rec.entry.name(), show_bytes(sl, 60), nm.st.show(), nm.headers.len(), shift),
                rec,
            ));
        }
        if l.counting {
            l.bump("split: compared");
        }
        account_std(r, l, rec, &om, h.contains(&b':'), "parse_headers vs the message's own start line");
        return Ok(());
    }
    if rec.sub == "c16-decoy" {
        // uninit entry points on a value that owns a non-empty array: same result as the
        // initialised entry point at the capacity of the uninit slice, own array untouched
        let decoy = rec.aux.first().copied().unwrap_or(3) as usize;
        let (uentry, ientry) = if kind == Kind::Request {
            (if rec.cfg == 0 && rec.aux.get(1).copied().unwrap_or(0) == 0 { Entry::ReqUninit } else { Entry::ReqCfgUninit }, Entry::ReqCfg)
        } else {
            (if rec.cfg == 0 && rec.aux.get(1).copied().unwrap_or(0) == 0 { Entry::RespUninit } else { Entry::RespCfgUninit }, Entry::RespCfg)
        };
        IN_PARSER.with(|c| c.set(true));
        let res = std::panic::catch_unwind(std::panic::AssertUnwindSafe(|| {
            let a = super::p_hist::uninit_with_decoy(kind, uentry, rec.cfg, &rec.buf, rec.cap, decoy);
            let b = super::p_hist::run_sequence(kind, ientry, rec.cfg, &[&rec.buf[..]], rec.cap);
            (a, b)
        }));
        IN_PARSER.with(|c| c.set(false));
        let Ok(((uo, intact), io)) = res else {
            return Err(viol("C16/panic", "a call panicked".into(), rec));
        };
        if uo != io[0] || !intact {
            return Err(viol(
                &format!("C16/uninit-entry-on-a-value-with-its-own-array/{}", kind.name()),
                format!("{} with an uninit slice of {} slots, on a value that owns an array of {} headers, leaves {:?} (own array and headers slice left alone: {}); {} with capacity {} leaves {:?}",
                    uentry.name(), rec.cap, decoy, uo, intact, ientry.name(), rec.cap, io[0]),
                rec,
            ));
        }
        if l.counting {
            l.bump(status_hist_key(&uo.st));
        }
        r.account(l, rec, uo.version.is_some() || uo.method.is_some(), "uninit entry with a decoy array");
        return Ok(());
    }
    if rec.sub == "c16-sequence" {
        // the same sequence of buffers through each entry point, each on its own reused value
        let mut seq: Vec<&[u8]> = rec.bufs.iter().map(|b| &b[..]).collect();
        seq.push(&rec.buf);
        let es = entries_of(kind);
        let mut base: Option<(Entry, Vec<super::p_hist::StepObs>)> = None;
        for &e in es {
            if rec.cfg != 0 && !e.takes_cfg() {
                continue;
            }
            IN_PARSER.with(|c| c.set(true));
            let res = std::panic::catch_unwind(std::panic::AssertUnwindSafe(|| super::p_hist::run_sequence(kind, e, rec.cfg, &seq, rec.cap)));
            IN_PARSER.with(|c| c.set(false));
            let Ok(obs) = res else {
                return Err(viol("C16/panic", format!("a call of the sequence through {} panicked", e.name()), rec));
            };
            match &base {
                None => base = Some((e, obs)),
                Some((e0, o0)) => {
                    if let Some(k) = (0..obs.len()).find(|&k| o0[k] != obs[k]) {
                        return Err(viol(
                            &format!("C16/entry-points-disagree-on-reused-value/{}", kind.name()),
                            format!("call {} of {} on one reused value: {} leaves {:?}; {} leaves {:?}", k + 1, obs.len(), e0.name(), o0[k], e.name(), obs[k]),
                            rec,
                        ));
                    }
                }
            }
        }
        if let Some((_, o)) = &base {
            let last = o.last().unwrap();
            if l.counting {
                l.bump(status_hist_key(&last.st));
            }
            let nt = o.len() >= 2 && (last.version.is_some() || last.method.is_some()) && o[..o.len() - 1].iter().any(|s| s.version.is_some() || s.method.is_some());
            r.account(l, rec, nt, "sequence through each entry point");
        }
        return Ok(());
    }
    // the entry points of one kind
    let es = entries_of(kind);
    let mut base: Option<(Entry, Obs, Norm)> = None;
    for &e in es {
        if rec.cfg != 0 && !e.takes_cfg() {
            continue;
        }
        let mut c = rec.clone();
        c.entry = e;
        let o = run_rec(ctx, &c);
        if let Some(v) = panic_viol("C16", &o, &c) {
            return Err(v);
        }
        let n = norm(&o);
        match &base {
            None => base = Some((e, o, n)),
            Some((e0, o0, n0)) => {
                let mut same = n0.st == n.st
                    && n0.method == n.method
                    && n0.path == n.path
                    && n0.version == n.version
                    && n0.code == n.code
                    && n0.reason == n.reason;
                if matches!(n.st, St::Complete(_)) {
                    same = same && n0.headers == n.headers;
                }
                // the caller's array: the same slots written with the same headers
                // (same arena placement => same addresses)
                same = same && written_slots(o0) == written_slots(&o);
                if !same {
                    return Err(viol(
                        &format!("C16/entry-points-disagree/{}", kind.name()),
                        format!("{} gives {} ({} headers, {} slots written); {} gives {} ({} headers, {} slots written)",
                            e0.name(), n0.st.show(), n0.headers.len(), written_slots(o0).len(),
                            e.name(), n.st.show(), n.headers.len(), written_slots(&o).len()),
                        rec,
                    ));
                }
            }
        }
    }
    if let Some((_, o, _)) = &base {
        let nt = rec.buf.contains(&b':') && (o.version.is_some() || o.method.is_some());
        account_std(r, l, rec, o, nt, "entry points of one kind");
    }
    Ok(())
}

// =================================================================================
// C17
// =================================================================================

pub fn check_c17(r: &Runner, ctx: &mut Ctx, l: &mut Local, rec: &CaseRec) -> Result<(), Violation> {
    let lines = rec.buf.iter().filter(|&&c| c == b'\n').count();
    let ucap = (lines + 8).max(64);
    let spec = |cap: usize, hdr_at_end: bool| Spec {
        entry: rec.entry,
        cfg: rec.cfg,
        cap,
        place: rec.place,
        hdr_at_end,
        prefill: Prefill::Sentinel,
        buf: &rec.buf,
    };
    let u = ctx.run(&spec(ucap, true));
    if let Some(v) = panic_viol("C17", &u, rec) {
        return Err(v);
    }
    let nu = norm(&u);
    let m = written_slots(&u).len();
    // "header lines accepted / completed" judged independently of the parser: the reference
    // model's count for the unlimited-capacity run (a parser that takes a slot before the line
    // is complete, or drops an accepted line, does so in both of its own runs)
    if rec.buf.len() <= 20_000 {
        let mm = crate::model::model(rec.kind(), &rec.buf, if rec.entry.takes_cfg() { rec.cfg } else { 0 }, ucap);
        let agree = match (&nu.st, &mm.verdict) {
            (St::Complete(a), crate::model::Verdict::Complete(b)) => a == b,
            (St::Partial, crate::model::Verdict::Partial) => true,
            _ => false,
        };
        if agree && mm.headers.len() != m {
            return Err(viol(
                "C17/slots-written-differs-from-lines-complete",
                format!("with ample capacity ({}) the parser gives {} and has written {} slots, but {} header lines are complete at that point", ucap, nu.st.show(), m, mm.headers.len()),
                rec,
            ));
        }
    }
    let hdr_at_end = rec.aux.first().copied().unwrap_or(1) != 0;
    let o = ctx.run(&spec(rec.cap, hdr_at_end));
    if let Some(v) = panic_viol("C17", &o, rec) {
        return Err(v);
    }
    let n = norm(&o);
    let cap = rec.cap;
    // capacity law
    if m <= cap {
        let same = n.st == nu.st
            && n.method == nu.method
            && n.path == nu.path
            && n.version == nu.version
            && n.code == nu.code
            && n.reason == nu.reason
            && (!matches!(n.st, St::Complete(_)) || n.headers == nu.headers)
            && written_slots(&o).len() == m;
        if !same {
            return Err(viol(
                "C17/capacity-changes-outcome",
                format!("capacity {} gives {} ({} slots written) but capacity {} gives {} ({} slots written): only {} header lines complete", cap, n.st.show(), written_slots(&o).len(), ucap, nu.st.show(), m, m),
                rec,
            ));
        }
    } else if n.st != St::Err(ErrKind::TooManyHeaders) {
        return Err(viol(
            "C17/too-many-headers-missing",
            format!("capacity {} but {} header lines complete with unlimited capacity ({}); got {}", cap, m, nu.st.show(), n.st.show()),
            rec,
        ));
    }
    // TooManyHeaders means one more header line than the array holds was completed: every slot
    // of the array has then been filled
    if n.st == St::Err(ErrKind::TooManyHeaders) && written_slots_raw(&o).len() != cap {
        return Err(viol(
            "C17/too-many-headers-with-free-slots",
            format!("Err(TooManyHeaders) with capacity {} although only {} slots were filled", cap, written_slots_raw(&o).len()),
            rec,
        ));
    }
    if !o.canary_ok {
        return Err(viol("C17/write-outside-array", "bytes next to the caller's array were overwritten".into(), rec));
    }
    let wr = written_slots_raw(&o);
    let in_buf = |w: &[usize; 4]| -> bool {
        // both fat pointers must be (ptr,len) pairs inside the buffer, or zero-length
        let inside = |p: usize, len: usize| len == 0 || (p >= o.buf_ptr && p + len <= o.buf_ptr + o.buf_len);
        (inside(w[0], w[1]) && inside(w[2], w[3])) || (inside(w[1], w[0]) && inside(w[3], w[2]))
    };
    match n.st {
        St::Complete(_) => {
            if o.hslice.len != wr.len() || o.hslice.ptr != o.array_ptr {
                return Err(viol(
                    "C17/count",
                    format!("Complete: headers.len() = {} at {:#x}, but {} slots of the array at {:#x} were written", o.hslice.len, o.hslice.ptr, wr.len(), o.array_ptr),
                    rec,
                ));
            }
            // written slots are exactly 0..len
            if wr.iter().enumerate().any(|(i, (slot, _))| *slot != i) {
                return Err(viol("C17/slots-not-prefix", format!("written slots {:?} are not 0..{}", wr.iter().map(|x| x.0).collect::<Vec<_>>(), wr.len()), rec));
            }
            for (nm, v) in &o.headers {
                if o.off(*nm).is_none() || (v.len > 0 && o.off(*v).is_none()) {
                    return Err(viol("C17/exposed-element-not-from-buffer", "an exposed header does not point into this buffer".into(), rec));
                }
            }
        }
        St::Partial | St::Err(_) => {
            if o.hslice != o.hslice_before {
                return Err(viol(
                    if rec.entry.uninit() { "C17/uninit-headers-touched" } else { "C17/headers-not-restored" },
                    format!("after {} `headers` is ({:#x},{}) but it was ({:#x},{}) before the call", n.st.show(), o.hslice.ptr, o.hslice.len, o.hslice_before.ptr, o.hslice_before.len),
                    rec,
                ));
            }
            if !rec.entry.uninit() && rec.entry != Entry::Headers {
                for (slot, w) in &wr {
                    if !in_buf(w) {
                        return Err(viol("C17/slot-garbage", format!("after {} slot {} holds neither its previous content nor a header from this buffer: {:x?}", n.st.show(), slot, w), rec));
                    }
                }
            }
        }
        St::Panic(_) => {}
    }
    if l.counting {
        let d = cap as i64 - m as i64;
        l.bump(match d {
            i64::MIN..=-2 => "N-m<=-2",
            -1 => "N-m=-1",
            0 => "N-m=0",
            1 => "N-m=1",
            2 => "N-m=2",
            _ => "N-m>=3",
        });
        if rec.entry.uninit() {
            l.bump("uninit-entry");
        }
    }
    let nt = lines >= 1 && m >= 1 && cap <= m + 1;
    account_std(r, l, rec, &o, nt, &format!("m={} cap={}", m, cap));
    Ok(())
}

// =================================================================================
// plans
// =================================================================================

/// bases for C05 sweeps: request/response, each header option exercised
pub const C05_BASES: [(&[u8], Entry, u8); 12] = [
    (b"GET /path?q=1 HTTP/1.1\r\nHost: example.com\r\nAccept: */*\r\n\r\n", Entry::ReqCfg, 0),
    (b"POST /caf\xc3\xa9 HTTP/1.0\nA:b\n\n", Entry::ReqCfg, 0),
    (b"HTTP/1.1 200 OK\r\nServer: x\r\nContent-Length: 0\r\n\r\n", Entry::RespCfg, 0),
    (b"HTTP/1.0 404 Not\tFound\nA: b\n\n", Entry::RespCfg, 0),
    (b"HTTP/1.1 200 OK\r\nFolded: one\r\n two\r\n\tthree \r\nB: c\r\n\r\n", Entry::RespCfg, C_MULTILINE),
    (b"HTTP/1.1 200 OK\r\nSpaced \t: v\r\n\r\n", Entry::RespCfg, C_SPACES_AFTER_NAME),
    (b"HTTP/1.1 200 OK\r\n \tLead: v\r\nB: c\r\n\r\n", Entry::RespCfg, C_SPACE_BEFORE_FIRST),
    (b"HTTP/1.1 200 OK\r\nbad line\r\nA: b\r\nC D: e\r\n\r\n", Entry::RespCfg, C_IGNORE_RESP),
    (b"GET / HTTP/1.1\r\nbad line\r\nA: b\r\n : x\r\n\r\n", Entry::ReqCfg, C_IGNORE_REQ),
    (b"HTTP/1.1  200  OK\r\nA: b\r\n\r\n", Entry::RespCfg, C_MULTISPACE_RESP),
    (b"GET  /x  HTTP/1.1\r\nA: b\r\n\r\n", Entry::ReqCfg, C_MULTISPACE_REQ),
    (b"HTTP/1.1 200 OK\r\nA: b\r\n c\r\nbad\r\n d\r\nE : f\r\n\r\n", Entry::RespCfg, C_MULTILINE | C_IGNORE_RESP | C_SPACES_AFTER_NAME),
];

fn c05_sweeps(r: &Runner) {
    let mut offs = vec![0u64];
    for (b, _, _) in C05_BASES.iter() {
        offs.push(offs.last().unwrap() + b.len() as u64 * 256 * 4);
    }
    r.par_enum("byte sweep: 256 values × every position × 12 bases × {base cfg, +ignore, all-on, cfg from index}", *offs.last().unwrap(), |ctx, l, idx| {
        let bi = offs.partition_point(|&o| o <= idx) - 1;
        let (base, entry, cfg0) = C05_BASES[bi];
        let mut x = idx - offs[bi];
        let cv = x % 4;
        x /= 4;
        let val = (x % 256) as u8;
        let pos = (x / 256) as usize;
        let cfg = match cv {
            0 => cfg0,
            1 => cfg0 | C_IGNORE_REQ | C_IGNORE_RESP,
            2 => 0x7f,
            _ => (mix(idx) & 0x7f) as u8,
        };
        let mut buf = base.to_vec();
        buf[pos] = val;
        let mut rec = CaseRec::new("hygiene", entry, cfg, 8, buf);
        rec.aux = vec![pos as u64];
        check_c05(r, ctx, l, &rec)
    });
}

/// lane phases: a byte value at position `phase` of a long target / reason / name / value
fn c05_lanes(r: &Runner, maxphase: usize) {
    let per = (maxphase as u64 + 1) * 256;
    // element: 0 target, 1 reason, 2 name, 3 value, 4 value (folding+ignore cfg), 5 ignored-line tail
    let total = per * 6;
    r.par_enum(&format!("lane phases 0..={} × 256 values × 6 elements", maxphase), total, |ctx, l, idx| {
        let elem = idx / per;
        let x = idx % per;
        let val = (x % 256) as u8;
        let phase = (x / 256) as usize;
        let mut fillv = Vec::new();
        gen::fill(&mut fillv, phase + 12, 0, phase as u16);
        fillv[phase] = val;
        let (entry, cfg, buf): (Entry, u8, Vec<u8>) = match elem {
            0 => (Entry::ReqParse, 0, [&b"GET /"[..], &fillv, b" HTTP/1.1\r\n\r\n"].concat()),
            1 => (Entry::RespParse, 0, [&b"HTTP/1.1 200 "[..], &fillv, b"\r\n\r\n"].concat()),
            2 => (Entry::Headers, 0, [&fillv[..], b": v\r\n\r\n"].concat()),
            3 => (Entry::Headers, 0, [&b"N: "[..], &fillv, b"\r\nB: c\r\n\r\n"].concat()),
            4 => (Entry::RespCfg, C_MULTILINE | C_IGNORE_RESP, [&b"HTTP/1.1 200 OK\r\nN: a\r\n "[..], &fillv, b"\r\nB: c\r\n\r\n"].concat()),
            _ => (Entry::ReqCfg, C_IGNORE_REQ, [&b"GET / HTTP/1.1\r\nbad line "[..], &fillv, b"\r\nB: c\r\n\r\n"].concat()),
        };
        let head = buf.len() - fillv.len();
        let mut rec = CaseRec::new("hygiene", entry, cfg, 8, buf);
        rec.aux = vec![(head.min(40) + phase) as u64];
        check_c05(r, ctx, l, &rec)
    });
}

fn hdr_exhaustive<F>(r: &Runner, name: &str, maxlen: u32, combos: &[(Entry, u8)], sub: &'static str, f: F)
where
    F: Fn(&Runner, &mut Ctx, &mut Local, &CaseRec) -> Result<(), Violation> + Sync,
{
    let per = gen::count_upto(11, maxlen);
    let nctx = HDR_CONTEXTS.len() as u64;
    let total = per * nctx * combos.len() as u64;
    r.par_enum(name, total, |ctx, l, idx| {
        let s = idx % per;
        let x = idx / per;
        let c = (x % nctx) as usize;
        let (entry, cfg) = combos[(x / nctx) as usize];
        let mut block = Vec::with_capacity(32);
        block.extend_from_slice(HDR_CONTEXTS[c]);
        gen::nth_string(&HDR_ALPHABET, s, &mut block);
        let rec = CaseRec::new(sub, entry, cfg, 4, with_start_line(entry.kind(), &block));
        f(r, ctx, l, &rec)
    });
}

fn all_opt_combos() -> Vec<(Entry, u8)> {
    let mut v = vec![(Entry::Headers, 0)];
    for c in 0..16u8 {
        let resp = ((c & 1) * C_SPACES_AFTER_NAME)
            | (((c >> 1) & 1) * C_MULTILINE)
            | (((c >> 2) & 1) * C_SPACE_BEFORE_FIRST)
            | (((c >> 3) & 1) * C_IGNORE_RESP);
        v.push((Entry::RespCfg, resp));
    }
    for c in 0..4u8 {
        let req = ((c & 1) * C_SPACE_BEFORE_FIRST) | (((c >> 1) & 1) * C_IGNORE_REQ);
        v.push((Entry::ReqCfg, req));
    }
    v
}

fn literal_sweep<F>(r: &Runner, sub: &'static str, f: F)
where
    F: Fn(&Runner, &mut Ctx, &mut Local, &CaseRec) -> Result<(), Violation> + Sync,
{
    let mut offs = vec![0u64];
    for (b, _) in LITERAL_BASES.iter() {
        offs.push(offs.last().unwrap() + b.len() as u64 * 257);
    }
    r.par_enum("well-known literal messages (HTTP/2 preface, HEAD, CONNECT, 100-continue, ...): 256 values at every position + every prefix", *offs.last().unwrap(), |ctx, l, idx| {
        let bi = offs.partition_point(|&o| o <= idx) - 1;
        let (base, entry) = LITERAL_BASES[bi];
        let x = idx - offs[bi];
        let pos = (x / 257) as usize;
        let v = x % 257;
        let buf = if v == 256 {
            base[..pos].to_vec()
        } else {
            let mut b = base.to_vec();
            b[pos] = v as u8;
            b
        };
        let rec = CaseRec::new(sub, entry, 0, 8, buf);
        f(r, ctx, l, &rec)
    });
    dict_phase(r, sub, &|e: Entry, _c: u8| sub != "zerocopy" && sub != "hygiene" || e.kind() != Kind::Chunk, f);
}

fn any_entry(_e: Entry, _c: u8) -> bool {
    true
}
fn msg_entry(e: Entry, _c: u8) -> bool {
    e.kind() != Kind::Chunk
}

/// C02 on long extensions: a head that is decided early (Complete or Err) followed by a tail of
/// up to 140 KiB; the verdict must not change however long the buffer grows.
fn check_c02_tail(r: &Runner, ctx: &mut Ctx, l: &mut Local, rec: &CaseRec) -> Result<(), Violation> {
    let head_len = rec.aux[0] as usize;
    let mut first: Option<(usize, Norm)> = None;
    for &k in &[head_len, head_len + 1, head_len + 40, rec.buf.len() / 2, rec.buf.len()] {
        if k > rec.buf.len() || k < head_len {
            continue;
        }
        let mut sub = rec.clone();
        sub.buf.truncate(k);
        let n = norm(&run_rec(ctx, &sub));
        if let St::Panic(m) = &n.st {
            return Err(viol("C02/panic", format!("parser panicked: {}", m), rec));
        }
        match &first {
            None => {
                if n.st != St::Partial {
                    first = Some((k, n));
                }
            }
            Some((k0, n0)) => {
                let same = match (&n0.st, &n.st) {
                    (St::Err(a), St::Err(b)) => a == b,
                    (St::Complete(_), St::Complete(_)) => n0 == &n,
                    _ => false,
                };
                if !same {
                    return Err(viol(
                        &format!("C02/unstable/{}-then-{}", n0.st.class(), n.st.class()),
                        format!("a buffer of {} bytes gives {}, the same bytes extended to {} bytes give {}", k0, n0.st.show(), k, n.st.show()),
                        rec,
                    ));
                }
            }
        }
    }
    r.account(l, rec, first.is_some() && rec.buf.len() > 4096, "decided head + long tail");
    Ok(())
}

pub fn run_c02(r: &Runner) {
    {
        const HEADS: [(&[u8], Entry, u8); 10] = [
            (b"GET / HTTP/1.1\r\nA: b\r\n\r\n", Entry::ReqParse, 0),
            (b"GET / HTTP/1.1\r\nbad line\r\n", Entry::ReqParse, 0),
            (b"GET / HTTP/1.1\r\nA: b\x01\r\n", Entry::ReqCfg, 0),
            (b"GET /\x7f HTTP/1.1\r\n", Entry::ReqParse, 0),
            (b"HTTP/1.1 200 OK\r\nA: b\r\n\r\n", Entry::RespParse, 0),
            (b"HTTP/1.1 2x0 OK\r\n", Entry::RespParse, 0),
            (b"HTTP/1.1 200 OK\r\n : x\r\n", Entry::RespCfg, C_MULTILINE),
            (b"A: b\r\nC\r\n", Entry::Headers, 0),
            (b"A: b\r\n\r\n", Entry::Headers, 0),
            (b"1g\r\n", Entry::Chunk, 0),
        ];
        const TAILS: [usize; 7] = [100, 1000, 5000, 33000, 66000, 100000, 140000];
        r.par_enum("early-decided heads (Complete and Err) × tails of 100 B..140 KiB × 3 tail fillers (no blank line / header-like lines / blank lines)", 10 * 7 * 3, |ctx, l, idx| {
            let (head, entry, cfg) = HEADS[(idx % 10) as usize];
            let tl = TAILS[((idx / 10) % 7) as usize];
            let kind = idx / 70;
            let mut buf = head.to_vec();
            let unit: &[u8] = match kind {
                0 => b"xxxxxxxxxxxxxxxxxxxxxxxxxxxxxxxxxxxxxxx ",
                1 => b"Header-Name: header value\r\n",
                _ => b"body\r\n\r\nmore\n\n",
            };
            while buf.len() < head.len() + tl {
                buf.extend_from_slice(unit);
            }
            let mut rec = CaseRec::new("tail", entry, cfg, 8, buf);
            rec.aux = vec![head.len() as u64];
            check_c02_tail(r, ctx, l, &rec)
        });
    }
    families_phase(r, "prefix", &any_entry, check_c02);
    repeat_boundary_phase(r, "prefix", &any_entry, check_c02);
    pair_phase(r, "prefix", &any_entry, check_c02);
    chunk_sweep_phase(r, "prefix", check_c02);
    // extension direction: heads from the hygiene sweeps followed by 72 bytes of padding, so
    // that the same head is scanned once inside the last <32 bytes of a buffer and once
    // with plenty of bytes after it
    {
        let mut offs = vec![0u64];
        for (b, _, _) in C05_BASES.iter() {
            offs.push(offs.last().unwrap() + b.len() as u64 * 256);
        }
        r.par_enum("256 values at every position of 12 bases, each followed by 72 bytes of body: all prefixes (a head decided in a vector tail must be decided the same with bytes after it)", *offs.last().unwrap(), |ctx, l, idx| {
            let bi = offs.partition_point(|&o| o <= idx) - 1;
            let (base, entry, cfg) = C05_BASES[bi];
            let x = idx - offs[bi];
            let mut buf = base.to_vec();
            buf[(x / 256) as usize] = (x % 256) as u8;
            buf.extend_from_slice(&[b'x'; 72]);
            let rec = CaseRec::new("prefix", entry, cfg, 8, buf);
            check_c02(r, ctx, l, &rec)
        });
    }
    let g = GenSpec { kinds: &ALL_KINDS, profile: Profile { truncate: 16, mutate: 80, ..Profile::DEFAULT }, generous_cap: false, cfg_mask: 0x7f, cfg_entry_only: false };
    r.par_random(
        "G1 bases × all split points (each prefix in its own exact-length guard-page buffer)",
        r.amount(800_000, 10_000_000),
        160,
        |u: &mut Choice| g1_case(u, "prefix", &g),
        &|ctx, l, rec| check_c02(r, ctx, l, rec),
    );
    // G2: exhaustive header strings × all prefixes
    hdr_exhaustive(r, "header strings (11-symbol alphabet) × 8 contexts × option combos × all prefixes", if r.quick() { 4 } else { 5 }, &all_opt_combos(), "prefix", check_c02);
    // lane-phase bases: long targets / values / reasons with an offending byte late
    r.par_enum("long fields (every length 0..=80) × {valid, DEL inside, NUL inside} × 4 elements × all prefixes", 81 * 3 * 4, |ctx, l, idx| {
        let len = (idx % 81) as usize;
        let var = (idx / 81) % 3;
        let elem = idx / 243;
        let mut f = Vec::new();
        gen::fill(&mut f, len, 0, len as u16);
        if var > 0 && len > 0 {
            f[len * 2 / 3] = if var == 1 { 0x7f } else { 0 };
        }
        let (entry, buf): (Entry, Vec<u8>) = match elem {
            0 => (Entry::ReqParse, [&b"GET /"[..], &f, b" HTTP/1.1\r\nA: b\r\n\r\n"].concat()),
            1 => (Entry::RespParse, [&b"HTTP/1.1 200 "[..], &f, b"\r\nA: b\r\n\r\n"].concat()),
            2 => (Entry::Headers, [&b"Name: "[..], &f, b"\r\nA: b\r\n\r\n"].concat()),
            _ => (Entry::Headers, [&f[..], b": value\r\nA: b\r\n\r\n"].concat()),
        };
        let rec = CaseRec::new("prefix", entry, 0, 4, buf);
        check_c02(r, ctx, l, &rec)
    });
}

pub fn run_c03(r: &Runner) {
    // k stored header lines at narrow-counter boundaries followed by a special line
    {
        const KS: [usize; 8] = [255, 256, 257, 512, 65535, 65536, 65537, 70000];
        const TAILS: [&[u8]; 6] = [b"\t\r\n\r\n", b" \n\n", b" Lead: x\r\n\r\n", b" cont\r\n\r\n", b"bad line\r\n\r\n", b"\r\n"];
        let combos = all_opt_combos();
        let total = (KS.len() * TAILS.len() * combos.len()) as u64;
        r.par_enum("k stored header lines for k in {255,256,257,512,65535,65536,65537,70000} followed by a whitespace-only / whitespace-led / invalid / empty line × option combos", total, |ctx, l, idx| {
            let mut x = idx as usize;
            let (entry, cfg) = combos[x % combos.len()];
            x /= combos.len();
            let tail = TAILS[x % TAILS.len()];
            let k = KS[x / TAILS.len()];
            let mut block = Vec::with_capacity(k * 5 + 32);
            for _ in 0..k {
                block.extend_from_slice(b"a:b\n");
            }
            block.extend_from_slice(tail);
            let rec = CaseRec::new("frame", entry, cfg, k + 8, with_start_line(entry.kind(), &block));
            check_c03(r, ctx, l, &rec)
        });
    }
    families_phase(r, "frame", &any_entry, check_c03);
    repeat_boundary_phase(r, "frame", &any_entry, check_c03);
    chunk_sweep_phase(r, "frame", check_c03);
    literal_sweep(r, "frame", check_c03);
    let g = GenSpec { kinds: &ALL_KINDS, profile: Profile { truncate: 40, ..Profile::DEFAULT }, generous_cap: false, cfg_mask: 0x7f, cfg_entry_only: false };
    r.par_random(
        "G1 messages with trailing bodies (bodies contain CRLFCRLF / header-looking lines)",
        r.amount(10_000_000, 150_000_000),
        160,
        |u: &mut Choice| g1_case(u, "frame", &g),
        &|ctx, l, rec| check_c03(r, ctx, l, rec),
    );
    hdr_exhaustive(r, "header strings (11-symbol alphabet) × 8 contexts × option combos", if r.quick() { 5 } else { 6 }, &all_opt_combos(), "frame", check_c03);
    let g2 = GenSpec { kinds: &MSG_KINDS, profile: Profile::LENIENT, generous_cap: true, cfg_mask: 0x7f, cfg_entry_only: true };
    r.par_random(
        "G1 lenient-weighted messages (folds, leading whitespace, ignored lines)",
        r.amount(5_000_000, 80_000_000),
        160,
        |u: &mut Choice| g1_case(u, "frame", &g2),
        &|ctx, l, rec| check_c03(r, ctx, l, rec),
    );
}

pub fn run_c04(r: &Runner) {
    families_phase(r, "zerocopy", &msg_entry, check_c04);
    repeat_boundary_phase(r, "zerocopy", &msg_entry, check_c04);
    literal_sweep(r, "zerocopy", check_c04);
    {
        // 256 values at every position of the hygiene bases
        let mut offs = vec![0u64];
        for (b, _, _) in C05_BASES.iter() {
            offs.push(offs.last().unwrap() + b.len() as u64 * 256);
        }
        r.par_enum("256 values at every position of 12 bases (each header option exercised)", *offs.last().unwrap(), |ctx, l, idx| {
            let bi = offs.partition_point(|&o| o <= idx) - 1;
            let (base, entry, cfg) = C05_BASES[bi];
            let x = idx - offs[bi];
            let mut buf = base.to_vec();
            buf[(x / 256) as usize] = (x % 256) as u8;
            let rec = CaseRec::new("zerocopy", entry, cfg, 8, buf);
            check_c04(r, ctx, l, &rec)
        });
    }
    let g = GenSpec { kinds: &MSG_KINDS, profile: Profile::DEFAULT, generous_cap: false, cfg_mask: 0x7f, cfg_entry_only: false };
    for be in usable_backends() {
        set_backend(be);
        r.par_random(
            &format!("G1 messages, all outcomes, backend {}", backend_name(be)),
            r.amount(3_000_000, 40_000_000),
            160,
            |u: &mut Choice| {
                let mut rec = g1_case(u, "zerocopy", &g);
                rec.backend = be;
                rec
            },
            &|ctx, l, rec| check_c04(r, ctx, l, rec),
        );
    }
    set_backend(0);
    hdr_exhaustive(r, "header strings (11-symbol alphabet) × 8 contexts × option combos", if r.quick() { 5 } else { 6 }, &all_opt_combos(), "zerocopy", check_c04);
    let g2 = GenSpec { kinds: &RR_KINDS, profile: Profile::LENIENT, generous_cap: true, cfg_mask: 0x7f, cfg_entry_only: true };
    r.par_random(
        "G1 lenient-weighted messages",
        r.amount(3_000_000, 40_000_000),
        160,
        |u: &mut Choice| g1_case(u, "zerocopy", &g2),
        &|ctx, l, rec| check_c04(r, ctx, l, rec),
    );
}

pub fn run_c05(r: &Runner) {
    families_phase(r, "hygiene", &msg_entry, check_c05);
    repeat_boundary_phase(r, "hygiene", &msg_entry, check_c05);
    after_blank_run_phase(r, "hygiene", &msg_entry, check_c05);
    pair_phase(r, "hygiene", &msg_entry, check_c05);
    long_target_phase(r, "hygiene", &msg_entry, check_c05);
    long_field_phase(r, "hygiene", &msg_entry, check_c05);
    literal_sweep(r, "hygiene", check_c05);
    c05_sweeps(r);
    c05_lanes(r, if r.quick() { 70 } else { 140 });
    hdr_exhaustive(r, "header strings (11-symbol alphabet) × 8 contexts × option combos", if r.quick() { 5 } else { 6 }, &all_opt_combos(), "hygiene", check_c05);
    let g = GenSpec { kinds: &MSG_KINDS, profile: Profile::DEFAULT, generous_cap: true, cfg_mask: 0x7f, cfg_entry_only: false };
    r.par_random(
        "G1 messages with mutations",
        r.amount(8_000_000, 120_000_000),
        160,
        |u: &mut Choice| g1_case(u, "hygiene", &g),
        &|ctx, l, rec| check_c05(r, ctx, l, rec),
    );
    let g2 = GenSpec { kinds: &RR_KINDS, profile: Profile::LENIENT, generous_cap: true, cfg_mask: 0x7f, cfg_entry_only: true };
    r.par_random(
        "G1 lenient-weighted messages",
        r.amount(6_000_000, 80_000_000),
        160,
        |u: &mut Choice| g1_case(u, "hygiene", &g2),
        &|ctx, l, rec| check_c05(r, ctx, l, rec),
    );
}

fn rr_entry(e: Entry, _c: u8) -> bool {
    matches!(e.kind(), Kind::Request | Kind::Response)
}

pub fn run_c15(r: &Runner) {
    // scale families: part 1 on the family's message, part 2 with every other-kind bit set
    families_phase(r, "c15-default-accepted", &rr_entry, |r, ctx, l, rec| {
        let mut a = rec.clone();
        a.entry = Entry::cfg_entry(rec.kind());
        check_c15(r, ctx, l, &a)?;
        let other = if rec.kind() == Kind::Request { RESPONSE_ONLY_BITS } else { REQUEST_ONLY_BITS };
        let mut b = a.clone();
        b.sub = std::borrow::Cow::Borrowed("c15-other-kind");
        b.aux = vec![(rec.cfg ^ other) as u64];
        check_c15(r, ctx, l, &b)
    });
    after_blank_run_phase(r, "c15-default-accepted", &|e: Entry, c: u8| rr_entry(e, c) && c == 0, |r, ctx, l, rec| check_c15(r, ctx, l, rec));
    repeat_boundary_phase(r, "c15-default-accepted", &rr_entry, |r, ctx, l, rec| {
        let mut a = rec.clone();
        a.entry = Entry::cfg_entry(rec.kind());
        check_c15(r, ctx, l, &a)?;
        let other = if rec.kind() == Kind::Request { RESPONSE_ONLY_BITS } else { REQUEST_ONLY_BITS };
        let mut b = a.clone();
        b.sub = std::borrow::Cow::Borrowed("c15-other-kind");
        b.aux = vec![(rec.cfg ^ other) as u64];
        check_c15(r, ctx, l, &b)
    });
    let g = GenSpec { kinds: &RR_KINDS, profile: Profile::CLEAN, generous_cap: false, cfg_mask: 0, cfg_entry_only: true };
    r.par_random(
        "part 1: G1 mostly-valid messages; each default-Complete one × all 128 configs",
        r.amount(600_000, 8_000_000),
        160,
        |u: &mut Choice| g1_case(u, "c15-default-accepted", &g),
        &|ctx, l, rec| check_c15(r, ctx, l, rec),
    );
    // part 1 on the repository-style bases and header strings
    hdr_exhaustive(r, "part 1: header strings (11-symbol alphabet, ≤4) × 8 contexts × {request,response} × all 128 configs",
        if r.quick() { 3 } else { 4 }, &[(Entry::ReqCfg, 0), (Entry::RespCfg, 0)], "c15-default-accepted", check_c15);
    let g2 = GenSpec { kinds: &RR_KINDS, profile: Profile::LENIENT, generous_cap: false, cfg_mask: 0x7f, cfg_entry_only: true };
    r.par_random(
        "part 2: any G1 buffer × a config pair differing only in other-kind options",
        r.amount(8_000_000, 120_000_000),
        164,
        |u: &mut Choice| {
            let mut rec = g1_case(u, "c15-other-kind", &g2);
            let other_mask = if rec.kind() == Kind::Request { RESPONSE_ONLY_BITS } else { REQUEST_ONLY_BITS };
            let mut flip = u.byte() & other_mask;
            if flip == 0 {
                flip = other_mask & (other_mask.wrapping_neg()); // lowest other-kind bit
            }
            rec.aux = vec![(rec.cfg ^ flip) as u64];
            rec
        },
        &|ctx, l, rec| check_c15(r, ctx, l, rec),
    );
    // part 2 exhaustively over all pairs for header strings
    let per = gen::count_upto(11, if r.quick() { 3 } else { 4 });
    let total = per * 8 * 2 * 128;
    r.par_enum("part 2: header strings × 8 contexts × {request,response} × all 128 configs vs the config with other-kind bits cleared", total, |ctx, l, idx| {
        let cfg = (idx % 128) as u8;
        let mut x = idx / 128;
        let is_resp = x % 2 == 1;
        x /= 2;
        let c = (x % 8) as usize;
        let s = x / 8;
        let entry = if is_resp { Entry::RespCfg } else { Entry::ReqCfg };
        let other_mask = if is_resp { REQUEST_ONLY_BITS } else { RESPONSE_ONLY_BITS };
        if cfg & other_mask == 0 {
            return Ok(());
        }
        let mut block = HDR_CONTEXTS[c].to_vec();
        gen::nth_string(&HDR_ALPHABET, s, &mut block);
        let mut rec = CaseRec::new("c15-other-kind", entry, cfg, 4, with_start_line(entry.kind(), &block));
        rec.aux = vec![(cfg & !other_mask) as u64];
        check_c15(r, ctx, l, &rec)
    });
}

pub fn run_c16(r: &Runner) {
    families_phase(r, "c16-same-kind", &rr_entry, check_c16);
    repeat_boundary_phase(r, "c16-same-kind", &rr_entry, check_c16);
    let g = GenSpec { kinds: &RR_KINDS, profile: Profile::DEFAULT, generous_cap: false, cfg_mask: 0x7f, cfg_entry_only: true };
    r.par_random(
        "G1 messages × configs × capacities 0..=k+2: the 4 request / 4 response entry points",
        r.amount(6_000_000, 80_000_000),
        160,
        |u: &mut Choice| g1_case(u, "c16-same-kind", &g),
        &|ctx, l, rec| check_c16(r, ctx, l, rec),
    );
    static HK: [Kind; 1] = [Kind::Headers];
    let g2 = GenSpec { kinds: &HK, profile: Profile::DEFAULT, generous_cap: false, cfg_mask: 0, cfg_entry_only: true };
    r.par_random(
        "G1 header blocks: parse_headers(h) vs 6 start lines + h (request and response)",
        r.amount(2_000_000, 30_000_000),
        160,
        |u: &mut Choice| g1_case(u, "c16-headers-vs-message", &g2),
        &|ctx, l, rec| check_c16(r, ctx, l, rec),
    );
    let per = gen::count_upto(11, if r.quick() { 4 } else { 5 });
    r.par_enum("header strings (11-symbol alphabet) × 8 contexts × capacities {0,1,2,8}: parse_headers vs messages", per * 8 * 4, |ctx, l, idx| {
        let cap = [0usize, 1, 2, 8][(idx % 4) as usize];
        let x = idx / 4;
        let c = (x % 8) as usize;
        let s = x / 8;
        let mut block = HDR_CONTEXTS[c].to_vec();
        gen::nth_string(&HDR_ALPHABET, s, &mut block);
        let rec = CaseRec::new("c16-headers-vs-message", Entry::Headers, 0, cap, block);
        check_c16(r, ctx, l, &rec)
    });
    hdr_exhaustive(r, "header strings × 8 contexts × option combos: entry points of one kind", if r.quick() { 4 } else { 5 }, &all_opt_combos()[1..], "c16-same-kind", check_c16);
    // parse_headers vs the message's own start line (whatever the generator produced:
    // leading empty lines, long targets, reasons with HTAB / obs-text, ...)
    let g3 = GenSpec { kinds: &RR_KINDS, profile: Profile { truncate: 24, mutate: 40, ..Profile::DEFAULT }, generous_cap: false, cfg_mask: 0, cfg_entry_only: false };
    r.par_random(
        "G1 messages under the default config, split after their own start line: parse_headers(rest) vs the whole message",
        r.amount(2_000_000, 30_000_000),
        160,
        |u: &mut Choice| {
            let mut rec = g1_case(u, "c16-split-message", &g3);
            rec.cfg = 0;
            rec.entry = if rec.kind() == Kind::Request { Entry::ReqParse } else { Entry::RespParse };
            rec
        },
        &|ctx, l, rec| check_c16(r, ctx, l, rec),
    );
    {
        const SLS: [(&[u8], Entry); 16] = [
            (b"GET / HTTP/1.1\r\n", Entry::ReqParse), (b"\r\n\nOPTIONS * HTTP/1.0\n", Entry::ReqParse),
            (b"POST /a/very/long/target/that/spans/more/than/one/vector/block?x=1&y=2 HTTP/1.1\r\n", Entry::ReqParse),
            (b"M-SEARCH /caf\xc3\xa9 HTTP/1.1\r\n", Entry::ReqParse),
            (b"HTTP/1.1 200 OK\r\n", Entry::RespParse), (b"HTTP/1.0 404\n", Entry::RespParse), (b"HTTP/1.1 200 \r\n", Entry::RespParse),
            (b"HTTP/1.1 200 X\xffZ\r\n", Entry::RespParse), (b"HTTP/1.1 500 Tr\xe8s bien\n", Entry::RespParse),
            (b"HTTP/1.1 200 \tOK\t \r\n", Entry::RespParse), (b"HTTP/1.1 302   Moved  Temporarily  \r\n", Entry::RespParse),
            (b"HTTP/1.1 200 a reason phrase that is longer than thirty-two bytes \xe9 and goes on\r\n", Entry::RespParse),
            (b"\r\n\r\nHTTP/1.0 301 Moved\r\n", Entry::RespParse), (b"HTTP/1.1 999 \x80\n", Entry::RespParse),
            (b"HTTP/1.1 100 Continue\r\n", Entry::RespParse), (b"G / HTTP/1.1\n", Entry::ReqParse),
        ];
        const BLOCKS: [&[u8]; 10] = [
            b"\r\n", b"A: b\r\n\r\n", b"Host: example.com\r\nAccept: */*\r\n\r\nbody", b"A:\r\nB: c\r\n\r\n", b"A: b\nC: d\n\n",
            b"A: b", b"A: b\r\nbad line\r\n\r\n", b"A: b\x01\r\n\r\n", b" A: b\r\n\r\n", b"A : b\r\n\r\n",
        ];
        r.par_enum("16 start lines (leading empty lines, long / UTF-8 targets, reasons with HTAB, SP runs, obs-text) × 10 header blocks × capacities {0,1,2,8}: parse_headers(rest) vs the whole message", 16 * 10 * 4, |ctx, l, idx| {
            let cap = [0usize, 1, 2, 8][(idx % 4) as usize];
            let x = idx / 4;
            let (sl, entry) = SLS[(x % 16) as usize];
            let blk = BLOCKS[(x / 16) as usize];
            let rec = CaseRec::new("c16-split-message", entry, 0, cap, [sl, blk].concat());
            check_c16(r, ctx, l, &rec)
        });
    }
    // uninit entry points on a value that owns a non-empty array of its own
    {
        let gd = GenSpec { kinds: &RR_KINDS, profile: Profile { truncate: 24, mutate: 32, ..Profile::DEFAULT }, generous_cap: false, cfg_mask: 0x7f, cfg_entry_only: true };
        r.par_random(
            "G1 messages through the uninit entry points on a value that owns a sentinel array of 1..8 headers, uninit slice of 0..=k+2 slots: same result as the initialised entry point at that capacity, own array untouched",
            r.amount(1_000_000, 15_000_000),
            170,
            |u: &mut Choice| {
                let mut rec = g1_case(u, "c16-decoy", &gd);
                rec.aux = vec![[1u64, 2, 3, 8][u.below(4)], u.below(2) as u64];
                if u.chance(64) {
                    rec.cap = 0;
                }
                rec
            },
            &|ctx, l, rec| check_c16(r, ctx, l, rec),
        );
    }
    // the same sequence of calls on one reused value through each entry point
    {
        let prof = Profile { truncate: 40, mutate: 40, ..Profile::DEFAULT };
        r.par_random(
            "sequences of 2..4 buffers (G1 messages, prefixes of the last one, fixed messages) parsed on one reused value through each entry point of the kind: states after every call must agree",
            r.amount(1_500_000, 20_000_000),
            420,
            |u: &mut Choice| {
                let kind = if u.chance(128) { Kind::Response } else { Kind::Request };
                let (pbuf, nlines) = gen::message(u, kind, &prof);
                let cfg = if u.chance(128) { 0 } else { pick_cfg(u) };
                let cap = pick_cap(u, nlines + 1);
                let n = u.range(1, 3);
                let mut bufs = vec![];
                for _ in 0..n {
                    bufs.push(match u.weighted(&[100, 60, 40, 40]) {
                        0 => gen::message(u, kind, &prof).0,
                        1 => {
                            let k = u.below(pbuf.len() + 1);
                            pbuf[..k].to_vec()
                        }
                        2 => {
                            let list: &[&[u8]] = if kind == Kind::Request { &super::p_hist::REQS } else { &super::p_hist::RESPS };
                            list[u.below(8)].to_vec()
                        }
                        _ => pbuf.clone(),
                    });
                }
                let mut rec = CaseRec::new("c16-sequence", Entry::cfg_entry(kind), cfg, cap, pbuf);
                rec.bufs = bufs;
                rec
            },
            &|ctx, l, rec| check_c16(r, ctx, l, rec),
        );
        r.par_enum("every ordered triple of 8 fixed requests / 8 fixed responses × capacities {0,2,8} on one reused value through each entry point", 2 * 8 * 8 * 8 * 3, |ctx, l, idx| {
            let cap = [0usize, 2, 8][(idx % 3) as usize];
            let mut x = idx / 3;
            let a = (x % 8) as usize;
            x /= 8;
            let b = (x % 8) as usize;
            x /= 8;
            let c = (x % 8) as usize;
            let kind = if x / 8 == 0 { Kind::Request } else { Kind::Response };
            let list: &[&[u8]] = if kind == Kind::Request { &super::p_hist::REQS } else { &super::p_hist::RESPS };
            let mut rec = CaseRec::new("c16-sequence", Entry::cfg_entry(kind), 0, cap, list[c].to_vec());
            rec.bufs = vec![list[a].to_vec(), list[b].to_vec()];
            check_c16(r, ctx, l, &rec)
        });
    }
    // minimal messages: the shortest possible start lines with runs of minimal header lines,
    // every capacity 0..=k+2 (a bound derived from the buffer length would only bite here)
    {
        const STARTS: [(&[u8], Entry); 6] = [
            (b"A / HTTP/1.1\n", Entry::ReqParse), (b"A / HTTP/1.0\r\n", Entry::ReqParse), (b"GET / HTTP/1.1\n", Entry::ReqParse),
            (b"HTTP/1.1 200\n", Entry::RespParse), (b"HTTP/1.0 200\r\n", Entry::RespParse), (b"HTTP/1.1 200 \n", Entry::RespParse),
        ];
        const UNITS: [&[u8]; 4] = [b"a:\n", b"a:b\n", b"a:\r\n", b"ab: c\r\n"];
        let total = 6 * 4 * 13 * 15 * 2;
        r.par_enum("minimal start lines × k=0..=12 minimal header lines × capacity 0..=14 × {LF, CRLF terminator}: entry points of one kind", total, |ctx, l, idx| {
            let mut x = idx;
            let crlf = x % 2 == 1;
            x /= 2;
            let cap = (x % 15) as usize;
            x /= 15;
            let k = (x % 13) as usize;
            x /= 13;
            let unit = UNITS[(x % 4) as usize];
            let (sl, entry) = STARTS[(x / 4) as usize];
            let mut buf = sl.to_vec();
            for _ in 0..k {
                buf.extend_from_slice(unit);
            }
            buf.extend_from_slice(if crlf { b"\r\n" } else { b"\n" });
            let rec = CaseRec::new("c16-same-kind", entry, 0, cap, buf);
            check_c16(r, ctx, l, &rec)
        });
    }
}

pub fn run_c17(r: &Runner) {
    // capacity law at every cut: k lines × capacity 0..=k+1 × 6 tails × option sets × every
    // prefix (with folding a line only completes once the next byte is known not to continue
    // it: the cut right after a line end is where "completed first" is decided)
    {
        const TAILS: [&[u8]; 6] = [b"\r\n", b"", b"bad line\r\n\r\n", b"\x00", b" cont\r\n\r\n", b"Z: z\r\n\r\n"];
        const LINES: [&[u8]; 5] = [b"A: b\r\n", b"Cc:dd\n", b"E:\r\n", b"Ff: g h \r\n", b"I: j\r\n"];
        const CFGS: [u8; 6] = [0, C_MULTILINE, C_IGNORE_RESP | C_IGNORE_REQ, C_MULTILINE | C_IGNORE_RESP, C_SPACE_BEFORE_FIRST | C_MULTILINE, 0x7f];
        let mut cases: Vec<(usize, usize, usize, u8, Entry)> = vec![];
        for k in 0..=4usize {
            for cap in 0..=k + 1 {
                for t in 0..TAILS.len() {
                    for &cfg in CFGS.iter() {
                        for &e in [Entry::ReqCfg, Entry::RespCfg, Entry::ReqCfgUninit, Entry::RespCfgUninit, Entry::Headers].iter() {
                            if e == Entry::Headers && cfg != 0 {
                                continue;
                            }
                            cases.push((k, cap, t, cfg, e));
                        }
                    }
                }
            }
        }
        let maxlen = 4 * 10 + 32u64;
        r.par_enum("capacity law at every cut: k=0..=4 lines × capacity 0..=k+1 × 6 tails × 6 option sets × 5 entry points × every prefix of the header block", cases.len() as u64 * (maxlen + 1), |ctx, l, idx| {
            let (k, cap, t, cfg, entry) = cases[(idx / (maxlen + 1)) as usize];
            let cut = (idx % (maxlen + 1)) as usize;
            let mut block = vec![];
            for i in 0..k {
                block.extend_from_slice(LINES[i % LINES.len()]);
            }
            block.extend_from_slice(TAILS[t]);
            let full = with_start_line(entry.kind(), &block);
            let start = full.len() - block.len();
            if start + cut > full.len() {
                return Ok(());
            }
            let rec = CaseRec::new("storage", entry, cfg, cap, full[..start + cut].to_vec());
            check_c17(r, ctx, l, &rec)
        });
    }
    dict_dup_phase(r, "storage", &msg_entry, check_c17);
    families_phase(r, "storage", &msg_entry, check_c17);
    repeat_boundary_phase(r, "storage", &msg_entry, check_c17);
    // many header lines: k in a set around 256 and beyond, capacities around k and well above
    {
        const KS: [usize; 12] = [20, 64, 200, 255, 256, 257, 300, 1000, 4000, 4097, 9000, 70000];
        const DC: [i64; 6] = [-1, 0, 1, 2, 50, 1000];
        r.par_enum("k minimal header lines for k in {20,64,200,255,256,257,300,1000,4000,4097,9000,70000} × capacity k+{-1,0,1,2,50,1000} × 9 entry points × {complete, truncated}", 12 * 6 * 9 * 2, |ctx, l, idx| {
            let mut x = idx;
            let trunc = x % 2 == 1;
            x /= 2;
            let entry = ALL_ENTRIES[(x % 9) as usize];
            x /= 9;
            let dc = DC[(x % 6) as usize];
            let k = KS[(x / 6) as usize];
            let mut block = Vec::with_capacity(k * 8);
            for i in 0..k {
                block.extend_from_slice(if i % 3 == 0 { b"a: b\r\n" } else { b"Cc:d\n" });
            }
            if !trunc {
                block.extend_from_slice(b"\r\n");
            }
            let cap = (k as i64 + dc).max(0) as usize;
            let rec = CaseRec::new("storage", entry, 0, cap, with_start_line(entry.kind(), &block));
            check_c17(r, ctx, l, &rec)
        });
    }
    let g = GenSpec { kinds: &MSG_KINDS, profile: Profile { max_headers: 12, truncate: 40, ..Profile::DEFAULT }, generous_cap: false, cfg_mask: 0x7f, cfg_entry_only: false };
    r.par_random(
        "G1 blocks with k=0..12 header lines × capacity around k × all entry points × configs; sentinel/poison-prefilled arrays",
        r.amount(6_000_000, 80_000_000),
        164,
        |u: &mut Choice| {
            let mut rec = g1_case(u, "storage", &g);
            let at_end = !u.chance(64);
            rec.aux = vec![at_end as u64];
            rec
        },
        &|ctx, l, rec| check_c17(r, ctx, l, rec),
    );
    // every capacity 0..=k+2 for structured blocks
    const LINES: [&[u8]; 6] = [b"A: b\r\n", b"Cc:dd\n", b"E:\r\n", b"bad line\r\n", b"F: g\r\n h\r\n", b"I: j \r\n"];
    let total = 7u64 * 9 * 128 * 9 * 3;
    r.par_enum("k lines (0..=6) × capacity 0..=8 × 128 configs × 9 entry points × {complete, truncated, error tail}", total, |ctx, l, idx| {
        let mut x = idx;
        let tail = x % 3;
        x /= 3;
        let entry = ALL_ENTRIES[(x % 9) as usize];
        x /= 9;
        let mut cfg = (x % 128) as u8;
        x /= 128;
        let cap = (x % 9) as usize;
        let k = (x / 9) as usize;
        if !entry.takes_cfg() {
            if cfg != 0 {
                return Ok(());
            }
            cfg = 0;
        }
        let mut block = vec![];
        for i in 0..k {
            block.extend_from_slice(LINES[(i + cap) % LINES.len()]);
        }
        match tail {
            0 => block.extend_from_slice(b"\r\n"),
            1 => {}
            _ => block.extend_from_slice(b"\x01\r\n\r\n"),
        }
        let rec = CaseRec::new("storage", entry, cfg, cap, with_start_line(entry.kind(), &block));
        check_c17(r, ctx, l, &rec)
    });
}

pub fn run_c04_all(r: &Runner) {
    super::p_compile::run(r);
    if r.stopped() {
        return;
    }
    run_c04(r);
}

pub fn check_c04_any(r: &Runner, ctx: &mut Ctx, l: &mut Local, rec: &CaseRec) -> Result<(), Violation> {
    if rec.sub == "compile" {
        super::p_compile::check(r, ctx, l, rec)
    } else {
        check_c04(r, ctx, l, rec)
    }
}
