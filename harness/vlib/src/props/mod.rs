//! Property registry.

pub mod common;
pub mod p_compile;
pub mod p_hist;
pub mod p_meta;
pub mod p_model;
pub mod p_partial;
pub mod p_res;
pub mod p_scan;
pub mod p_total;
pub mod p_variants;

use crate::engine::{CaseRec, Local, Runner, Violation};
use crate::real::Ctx;

pub struct PropDef {
    pub id: &'static str,
    pub run: fn(&Runner),
    pub check: fn(&Runner, &mut Ctx, &mut Local, &CaseRec) -> Result<(), Violation>,
    /// how cases are generated and what makes one non-trivial / distinct
    pub rule: &'static str,
    pub assumptions: &'static [&'static str],
    /// largest buffer this property generates
    pub max_buf: usize,
}

macro_rules! model_prop {
    ($id:expr, $w:expr, $rule:expr) => {
        PropDef {
            id: $id,
            run: |r| p_model::run($w, r),
            check: |r, c, l, rec| p_model::check($w, r, c, l, rec),
            rule: $rule,
            assumptions: &[
                "the reference model M (vlib/src/model.rs) reads the property statement correctly (common-mode risk with the crate is mitigated by the model-free checks C02,C03,C05,C15-C18 and the model self-test table)",
                "x86-64 only; scanner backend = whatever the host CPU's runtime detection selects",
            ],
            max_buf: 80_000,
        }
    };
}

macro_rules! meta_prop {
    ($id:expr, $run:path, $check:path, $rule:expr, $assume:expr) => {
        PropDef { id: $id, run: $run, check: $check, rule: $rule, assumptions: $assume, max_buf: 80_000 }
    };
}

const META_ASSUME: &[&str] = &[
    "oracle is model-free: a metamorphic/differential relation or predicates transcribed from the statement",
    "x86-64 only; scanner backend = whatever the host CPU's runtime detection selects unless the phase forces one through hook H2",
];

pub fn all() -> Vec<PropDef> {
    vec![
        PropDef { id: "C01", run: p_total::run, check: p_total::check, max_buf: (1 << 20) + 4096, assumptions: &[
            "a fault is observable because every buffer abuts a PROT_NONE page (end- or start-abutting) and the header array abuts another; over-reads that stay inside the arena and the same page are invisible (thorough tier adds ASan via libFuzzer and Miri)",
            "x86-64 only: no 32-bit word size, no aarch64, no big-endian target installed",
            "non-termination is detected by a progress monitor (no case finishing for 20 s) and re-confirmed with a 60 s budget in a fresh process",
        ], rule: "cases = (entry point of 10, config of 128, capacity incl. 0, placement end/start/interior, array at guard page or not, sentinel or empty prefill, runtime backend avx2/sse4.2/scalar via hook H2, buffer). Buffers: G1 grammar-derived with mutations (occasionally 64 KiB values / 300 headers), class-alphabet strings and raw bytes, every prefix length of 10 base messages x 4 placements, interesting bytes at every position of the bases, 30 adversarial scale families x sizes 1 KiB..256 KiB/1 MiB x {whole, truncated, late error, jitter}; all in a release and a debug-assertion/overflow-check build. Oracle: the call returns one of Complete/Partial/Err without signal or panic, Complete(n) has n <= len, canary bytes next to the header array intact. Non-trivial = the parse got past the first start-line field (or kind is headers/chunk with >= 2 bytes) and the buffer abuts a guard page; distinct by hash of (entry,cfg,cap,placement,backend,buffer)" },
        meta_prop!("C02", p_meta::run_c02, p_meta::check_c02, "base buffers of all four kinds (G1 grammar-derived with mutations, bounded-exhaustive header strings under every option combination, long fields of every length 0..=80) x every split point k (all k for len<=400, 64 spread + last 16 beyond), each prefix copied into its own exact-length buffer ending at a guard page. Oracle: with k* the first non-Partial prefix, every longer prefix gives the same Err, or the same Complete(n) with identical fields/headers (as offsets into the base); k* >= n; fields reported with Partial equal those of the final Complete. Chunked re-parsing ends in the one-shot answer because every prefix is covered. Non-trivial = k* >= 8; distinct by hash of (entry,cfg,cap,base)", META_ASSUME),
        meta_prop!("C03", p_meta::run_c03, p_meta::check_c03, "G1 messages with trailing bodies (which contain CRLFCRLF and header-looking lines), lenient-weighted messages, bounded-exhaustive header strings x option combinations; all 128 configs, capacities, entry points. Oracle: independent LF-split scan for the first empty line ('' or CR) after the start line; Complete(n) must end exactly there (n <= len); Partial must not coexist with a strictly empty line; chunk size: n = 2 + first CRLF, Partial => no CRLF. Non-trivial = Complete with >=1 header / >1 line / trailing bytes, or Partial with >=1 complete line; distinct by hash of (entry,cfg,cap,buffer)", META_ASSUME),
        meta_prop!("C04", p_meta::run_c04_all, p_meta::check_c04_any, "part (a): G1 messages under every usable runtime backend (hook H2), lenient-weighted messages, bounded-exhaustive header strings; all outcomes. Oracle: pointer arithmetic — every non-empty returned slice lies in [buf,buf+len), on Complete(n) inside buf[..n] and in strictly increasing non-overlapping order method<path|reason<name0<value0<.... Non-trivial = >=1 header with non-empty value, or Partial/Err with a start-line field set; distinct by hash of (entry,cfg,cap,backend,buffer). part (b) (compile-time corpus) is reported in coverage.compile_corpus", META_ASSUME),
        meta_prop!("C05", p_meta::run_c05, p_meta::check_c05, "256 byte values x every position of 12 bases (each header option exercised) x 4 configs, lane phases 0..=70/140 x 256 values x 6 elements (target, reason, name, value, folded value, ignored-line tail), bounded-exhaustive header strings x option combinations, G1 default- and lenient-weighted messages. Oracle: predicates transcribed from the statement on every Complete (tchar method/names, target class + UTF-8, version, code re-read from the buffer, reason/value classes, trimming, fold rules, no NUL / bare CR in buf[..n]) and UTF-8 validity of every &str on every outcome. Non-trivial = Complete with the swept byte inside buf[..n], or a field containing obs-text / HTAB / a fold; distinct by hash of (entry,cfg,cap,buffer)", META_ASSUME),
        PropDef { id: "C18", run: p_hist::run, check: p_hist::check, max_buf: 80_000, assumptions: META_ASSUME, rule: "stateful: a history = 1..4 earlier calls (entry point among the kind's four, any config, buffer = fresh G1 message / prefix of the probe / the probe itself / a fixed 3-header message; or the README loop: growing prefixes of the probe with the probe's entry and config) on one Request/Response and one header array (uninit variants get their own arrays), then a probe call; plus every ordered pair of 8 fixed messages x 4x4 entry points x 3 capacities. Histories are generated as choice bytes (vec(op) + interpreter) and shrink as one value. Oracle: probe on the reused value vs probe on a fresh value whose array length equals the reused value's headers.len() before the probe: identical status; on Complete identical fields and headers. Non-trivial = the history contains a Complete or Partial call and the probe gets past its first start-line field; distinct by hash of (probe entry,cfg,cap,probe buffer,ops,history buffers)" },
        PropDef { id: "C11", run: p_partial::run, check: p_partial::check, max_buf: 80_000, assumptions: &[
            "existential oracle decided by search with the real parser: the completion set is every tail of a few complete messages (about 50 per kind), valid UTF-8 continuations of a truncated sequence, and depth-2 concatenations; a completable Partial that none of these completes would be a false alarm (none met on the unchanged tree over many seeds)",
            "the stated exception (request target with a definitely invalid UTF-8 sequence, deferred to its terminating SP) is recognised with the reference model and excluded (counted); capacity is set to lines+8 so the other exception cannot arise",
        ], rule: "every Partial in the prefix closure of G1 bases (default- and lenient-weighted, all kinds/configs/entry points), 256 byte values at every position of 8 bases, bounded-exhaustive start-line token strings, header strings x 10 option/kind combos and chunk-size strings. Oracle: exists suffix s in the completion set with parse(buffer+s) = Complete. Non-trivial = a Partial of >= 4 bytes whose witness is longer than a bare terminator; distinct by hash of (entry,cfg,base buffer)" },
        PropDef { id: "C12", run: p_scan::run, check: p_scan::check, max_buf: 8192, assumptions: &[
            "NEON is checked through a source transformation of the current neon.rs compiled against a scalar emulation of the aarch64 intrinsics (vlib/src/neon_emu.rs, transcribed from the Arm reference), not on hardware",
            "word size 8 (x86-64) only for the SWAR backend",
            "SSE4.2 / AVX2 backends are run only if the host CPU has them (it does: see notes)",
        ], rule: "for each backend x class (SWAR x3, SSE4.2 x2, AVX2 x2, emulated NEON x3, dispatching entry x3 under each forced cell value): every length 0..=100 x every position x all 256 byte values (other bytes in class, 2-3 fillers) with the buffer ending at a guard page; lengths 101..=300 x every position x 40 boundary values x 2 fillers (in-class fillers include HTAB and bytes >= 0x80, so lane-wise reductions over several vectors are exercised); all-in-class buffers of every length 0..=400 at 66 placements; one offending byte x 32 interior alignments; every pair of offending positions with 3 start cursors; SWAR block functions over a boundary alphabet^8 (must never step over an out-of-class byte); the class predicates on all 256 bytes. Oracle: cursor after the call == start + position of the first byte outside the class as written in the statement. Non-trivial = an offending byte at p>=1 or length >= 8; distinct by hash of (backend,class,cell,start,placement,bytes). exhaustive over the stated grid" },
        PropDef { id: "C13", run: p_variants::run, check: p_variants::check, max_buf: 80_000, assumptions: &[
            "thread timing is stressed (barrier-released first parses with the cached feature cell reset, in-process thousands of times and in fresh processes), not enumerated: the harness does not own the scheduler; what is enumerated instead is every value the cell can hold (hook H2), which bounds what any interleaving can make a reader observe",
            "x86-64 variants only; the host CPU has AVX2 and SSE4.2 so all compile-time variants can be executed",
            "exactly-one-implementation is decided by compilation: lib.rs uses all three scanner names through glob re-exports, so none => E0425 and two => E0659",
        ], rule: "(i) a deterministic generated corpus (G1 default- and lenient-weighted cases of all kinds/configs/capacities/entry points, lane-phase families for target/value/reason/name lengths 0..=80 x 6 offending bytes, chunk digit counts 0..=20) is parsed by vdigest built as: runtime-detect (production, reference), runtime with hooks forced to cell 0/1/2/3 and other cell values on a sub-corpus, compile-time sse4.2 / avx2 / both, avx2 with compile-time detection disabled, SIMD disabled, no_std; release and debug-assertion profiles; each case at buffer alignments 0/1/19 mod 64; per-case 64-bit hashes of (status, offset, every field as offset+bytes, headers) must equal the reference. (ii) all 32 switch combinations: cargo check of /repo. (iii) cold-start races: 16 threads released by a barrier into a parse with the cell reset, 20k/500k rounds in-process and 24/400 fresh processes. Non-trivial = corpus case with a run of >= 16 target-class bytes (takes a vector path); distinct by hash of (entry,cfg,cap,buffer)" },
        meta_prop!("C15", p_meta::run_c15, p_meta::check_c15, "part 1: mostly-valid G1 messages and bounded-exhaustive header strings; each default-Complete buffer is re-parsed under all 127 other configs and must give the identical normalised result (sole exception: reason with leading SP stripped under allow_multiple_spaces_in_response_status_delimiters). part 2: any buffer x config pairs differing only in other-kind options (random pairs on G1, all pairs on header strings) must agree on status, fields and headers. Non-trivial = default-Complete with >=1 header (part 1) / result past the first start-line field (part 2); distinct by hash of (entry,cfg,cfg2,cap,buffer)", META_ASSUME),
        meta_prop!("C16", p_meta::run_c16, p_meta::check_c16, "G1 messages x configs x capacities around k: Request::parse / ParserConfig::parse_request / the two uninit variants (and the response entry points; non-default configs compare the two config-taking ones) must agree on status, fields, headers and written array slots; parse_headers(h) vs 6 request/response start lines + h under the default config and equal capacity (offset shifted by the start-line length), on G1 header blocks and bounded-exhaustive header strings x capacities {0,1,2,8}. Non-trivial = buffer has a colon and the parse got past the start line; distinct by hash of (entry,cfg,cap,buffer)", META_ASSUME),
        meta_prop!("C17", p_meta::run_c17, p_meta::check_c17, "G1 blocks with k=0..12 lines x capacity around k x 9 entry points x configs, and k=0..6 structured lines x every capacity 0..=8 x 128 configs x 9 entry points x 3 tails; arrays pre-filled with sentinel headers (initialised entries) or 0xA5 poison (uninit entries), abutting a guard page, canary on the other side. Oracle: with m = slots written under capacity max(64,lines+8): m<=N => identical outcome, m>N => Err(TooManyHeaders); on Complete headers.len() = slots written = prefix 0..len, other slots bit-identical, exposed elements inside the buffer; after Partial/Err `headers` is (ptr,len)-identical to before the call and every changed slot holds a header from this buffer. Non-trivial = >=1 header line stored and capacity <= m+1; distinct by hash of (entry,cfg,cap,buffer)", META_ASSUME),
        model_prop!("C06", p_model::Which::C06, "request lines: byte sweeps (256 values x every position x 14 bases x overwrite/insert), targets of every length with bad bytes at every position, bounded-exhaustive token strings, G1 random with mutations; oracle = model M (verdict class, offset, method/path/version ranges, headers). Non-trivial = the model's first decisive event is at or after the target; distinct by hash of (entry,cfg,cap,buffer)"),
        model_prop!("C07", p_model::Which::C07, "status lines: byte sweeps, all 1000 codes x 3 reason shapes, reasons of every length 0..=70 with 16 class representatives at every position, bounded-exhaustive token strings, G1 random; oracle = model M (verdict class, offset, version/code/reason, headers). Non-trivial = the model reaches the status code; distinct by hash of (entry,cfg,cap,buffer)"),
        model_prop!("C08", p_model::Which::C08, "header blocks under the default config via parse_headers, Request::parse and Response::parse: bounded-exhaustive strings over an 11-symbol class alphabet after 8 resume contexts, 256-value sweeps over 16 bases, lane phases 0..=70/100 x 256 values x 3 syntactic positions, G1 random; oracle = model M (verdict class, offset, exact ordered (name,value) ranges). Non-trivial = at least one header line complete or the first decisive event lies after the first colon; distinct by hash of (entry,cfg,cap,buffer)"),
        model_prop!("C09", p_model::Which::C09, "chunk-size lines: bounded-exhaustive strings over a 14-symbol alphabet, digit counts 0..=20 x 8 boundary patterns x 9 tails and all their prefixes, G1 random with long extensions; run in the release and the debug-assertion profile; oracle = model_chunk (exact status, offset, u128-computed size). Non-trivial = at least one digit and >= 3 bytes, or >= 15 digits; distinct by hash of the buffer"),
        model_prop!("C10", p_model::Which::C10, "rejected buffers from the C06/C07/C08/C14 domains plus a TooManyHeaders-precedence family (k lines x capacity 0..=k+1 x tails x fold x kind x every cut); oracle = model M's acceptable error-kind set for the first offending byte, and TooManyHeaders iff the model says the surplus header line completed first. Non-trivial = rejected after the first byte; distinct by hash of (entry,cfg,cap,buffer)"),
        model_prop!("C14", p_model::Which::C14, "header blocks x 16 header-option combinations x {request,response} (response-only options crossed into requests, where they must be inert): bounded-exhaustive strings over the 11-symbol alphabet after 8 contexts, sweeps over 16 bases written to exercise each option and pair, lane phases, G1 random with fold/whitespace/invalid-line weights raised; oracle = model M with the same options, plus the metamorphic check that strict-valid blocks are reported identically under every option set. Non-trivial = the model took a lenient branch and at least one header or dropped line resulted; distinct by hash of (entry,cfg,cap,buffer)"),
        PropDef { id: "C19", run: p_res::run_c19, check: p_res::check_c19, max_buf: 80_000, assumptions: &[
            "allocation is observed through a counting #[global_allocator] installed in vcheck, armed by a thread-local flag around exactly the parser call (self-tested at start)",
            "the no_std build uses cargo +nightly -Zbuild-std=core for x86_64-unknown-none: the sysroot then contains core only, so any use of std or alloc fails to resolve",
        ], rule: "all 10 entry points x G1 default- and lenient-weighted messages, bounded-exhaustive header strings x 9 entry points, invalid-UTF-8 targets at every position; the histogram shows every outcome class (Complete, Partial, each Err kind, InvalidChunkSize) populated. Oracle: allocator calls on the calling thread while armed == 0; the two builds (core-only no_std for x86_64-unknown-none, stable --no-default-features) succeed. Non-trivial = any case other than Partial on the empty buffer; distinct by hash of (entry,cfg,cap,buffer)" },
        PropDef { id: "C20", run: p_res::run_c20, check: p_res::check_c20, max_buf: (1 << 20) + 8192, assumptions: &[
            "work is observed through hook H3 (per-thread counters in src/iter.rs); re-scans that bypass the cursor abstraction are only seen by the thorough tier's cachegrind instruction-count scaling",
            "the bounds are constants derived from the statement (travel <= len, block peeks <= len + 16, other primitives <= 8*len + 64); measured maxima on this tree are in coverage.runs[].maxima",
        ], rule: "40 adversarial parametric families (folded lines, ignored lines, whitespace runs, near-miss SIMD blocks, many minimal headers, long fields, late errors, ...) at sizes 1 KiB..1 MiB x {whole, truncated at a random point, late error, size jitter} under each runtime backend; 8 KiB values with HTAB/SP/obs-text at every period 1..=40; G1 lenient-weighted messages. Oracle A (hook H3 counters per call): exactly one cursor created, no backward cursor move, cursor travel <= len and == n on Complete(n), block peeks <= len + 16 (covering <= 8*(len+16)+64 bytes), every other primitive <= 8*len + 64. Oracle B (no hooks, sees work that bypasses the cursor): for every family, instruction counts of the production vdigest build under valgrind --tool=cachegrind at N and 4N (cost = I(3 repeats) - I(1 repeat), deterministic) must satisfy cost(4N) <= 8*cost(N) + 60000 (linear = x4, quadratic = x16). Non-trivial = len >= 4 KiB and >= 90% of the buffer consumed; distinct by hash of (entry,cfg,backend,buffer)" },
    ]
}

pub fn find(id: &str) -> Option<PropDef> {
    all().into_iter().find(|p| p.id == id)
}
