//! Property registry.

pub mod common;
pub mod p_model;

use crate::engine::{CaseRec, Local, Runner, Violation};
use crate::real::Ctx;

pub struct PropDef {
    pub id: &'static str,
    pub run: fn(&Runner),
    pub check: fn(&Runner, &mut Ctx, &mut Local, &CaseRec) -> Result<(), Violation>,
    /// how cases are generated and what makes one non-trivial / distinct
    pub rule: &'static str,
    pub assumptions: &'static [&'static str],
    /// largest buffer this property generates
    pub max_buf: usize,
}

macro_rules! model_prop {
    ($id:expr, $w:expr, $rule:expr) => {
        PropDef {
            id: $id,
            run: |r| p_model::run($w, r),
            check: |r, c, l, rec| p_model::check($w, r, c, l, rec),
            rule: $rule,
            assumptions: &[
                "the reference model M (vlib/src/model.rs) reads the property statement correctly (common-mode risk with the crate is mitigated by the model-free checks C02,C03,C05,C15-C18 and the model self-test table)",
                "x86-64 only; scanner backend = whatever the host CPU's runtime detection selects",
            ],
            max_buf: 80_000,
        }
    };
}

pub fn all() -> Vec<PropDef> {
    vec![
        model_prop!("C06", p_model::Which::C06, "request lines: byte sweeps (256 values x every position x 14 bases x overwrite/insert), targets of every length with bad bytes at every position, bounded-exhaustive token strings, G1 random with mutations; oracle = model M (verdict class, offset, method/path/version ranges, headers). Non-trivial = the model's first decisive event is at or after the target; distinct by hash of (entry,cfg,cap,buffer)"),
        model_prop!("C07", p_model::Which::C07, "status lines: byte sweeps, all 1000 codes x 3 reason shapes, reasons of every length 0..=70 with 16 class representatives at every position, bounded-exhaustive token strings, G1 random; oracle = model M (verdict class, offset, version/code/reason, headers). Non-trivial = the model reaches the status code; distinct by hash of (entry,cfg,cap,buffer)"),
        model_prop!("C08", p_model::Which::C08, "header blocks under the default config via parse_headers, Request::parse and Response::parse: bounded-exhaustive strings over an 11-symbol class alphabet after 8 resume contexts, 256-value sweeps over 16 bases, lane phases 0..=70/100 x 256 values x 3 syntactic positions, G1 random; oracle = model M (verdict class, offset, exact ordered (name,value) ranges). Non-trivial = at least one header line complete or the first decisive event lies after the first colon; distinct by hash of (entry,cfg,cap,buffer)"),
        model_prop!("C09", p_model::Which::C09, "chunk-size lines: bounded-exhaustive strings over a 14-symbol alphabet, digit counts 0..=20 x 8 boundary patterns x 9 tails and all their prefixes, G1 random with long extensions; run in the release and the debug-assertion profile; oracle = model_chunk (exact status, offset, u128-computed size). Non-trivial = at least one digit and >= 3 bytes, or >= 15 digits; distinct by hash of the buffer"),
        model_prop!("C10", p_model::Which::C10, "rejected buffers from the C06/C07/C08/C14 domains plus a TooManyHeaders-precedence family (k lines x capacity 0..=k+1 x tails x fold x kind x every cut); oracle = model M's acceptable error-kind set for the first offending byte, and TooManyHeaders iff the model says the surplus header line completed first. Non-trivial = rejected after the first byte; distinct by hash of (entry,cfg,cap,buffer)"),
        model_prop!("C14", p_model::Which::C14, "header blocks x 16 header-option combinations x {request,response} (response-only options crossed into requests, where they must be inert): bounded-exhaustive strings over the 11-symbol alphabet after 8 contexts, sweeps over 16 bases written to exercise each option and pair, lane phases, G1 random with fold/whitespace/invalid-line weights raised; oracle = model M with the same options, plus the metamorphic check that strict-valid blocks are reported identically under every option set. Non-trivial = the model took a lenient branch and at least one header or dropped line resulted; distinct by hash of (entry,cfg,cap,buffer)"),
    ]
}

pub fn find(id: &str) -> Option<PropDef> {
    all().into_iter().find(|p| p.id == id)
}
