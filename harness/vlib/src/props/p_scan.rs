//! C12 — every byte-class scanner stops exactly at the first out-of-class byte.
//! Backends through hook H1 (SWAR, SSE4.2, AVX2, the dispatching entry under each H2
//! value) and NEON through the build-time transformed neon.rs + intrinsic emulation.

use crate::arena::Placement;
use crate::engine::{mix, CaseRec, Lcg, Local, Runner, Violation};
use crate::real::*;
use httparse::_verif::{simd, Bytes};

pub const B_SWAR: u8 = 0;
pub const B_SSE42: u8 = 1;
pub const B_AVX2: u8 = 2;
pub const B_NEON: u8 = 3;
pub const B_DISPATCH: u8 = 4; // + cell value 1..=3 in aux[1]

pub const CL_URI: u8 = 0;
pub const CL_VALUE: u8 = 1;
pub const CL_NAME: u8 = 2;

fn bname(b: u8) -> &'static str {
    ["swar", "sse4.2", "avx2", "neon(emulated)", "dispatch"][b as usize % 5]
}
fn cname(c: u8) -> &'static str {
    ["target", "header-value", "header-name"][c as usize % 3]
}

/// the classes, exactly as the statement gives them
pub fn in_class(class: u8, b: u8) -> bool {
    match class {
        CL_URI => matches!(b, 0x21..=0x7E | 0x80..=0xFF),
        CL_VALUE => matches!(b, 0x09 | 0x20..=0x7E | 0x80..=0xFF),
        _ => matches!(b, b'a'..=b'z' | b'A'..=b'Z' | b'0'..=b'9'
            | b'!' | b'#' | b'$' | b'%' | b'&' | b'\'' | b'*' | b'+' | b'-' | b'.' | b'^' | b'_' | b'`' | b'|' | b'~'),
    }
}

pub fn combos() -> Vec<(u8, u8)> {
    let mut v = vec![(B_SWAR, CL_URI), (B_SWAR, CL_VALUE), (B_SWAR, CL_NAME)];
    if simd::HAS_SSE42 && is_x86_feature_detected!("sse4.2") {
        v.push((B_SSE42, CL_URI));
        v.push((B_SSE42, CL_VALUE));
    }
    if simd::HAS_AVX2 && is_x86_feature_detected!("avx2") {
        v.push((B_AVX2, CL_URI));
        v.push((B_AVX2, CL_VALUE));
    }
    if crate::neon_gen::AVAILABLE {
        v.push((B_NEON, CL_URI));
        v.push((B_NEON, CL_VALUE));
        v.push((B_NEON, CL_NAME));
    }
    v.push((B_DISPATCH, CL_URI));
    v.push((B_DISPATCH, CL_VALUE));
    v.push((B_DISPATCH, CL_NAME));
    v
}

#[cfg(feature = "neon")]
fn neon_call(class: u8, b: &mut Bytes<'_>) {
    match class {
        CL_URI => crate::neon_gen::match_uri_vectored(b),
        CL_VALUE => crate::neon_gen::match_header_value_vectored(b),
        _ => crate::neon_gen::match_header_name_vectored(b),
    }
}
#[cfg(not(feature = "neon"))]
fn neon_call(_class: u8, _b: &mut Bytes<'_>) {}

/// run scanner on `data[start..]` (cursor advanced by `start` first); returns final pos
fn run_scanner(backend: u8, class: u8, data: &[u8], start: usize) -> usize {
    let mut b = Bytes::new(data);
    unsafe {
        b.advance(start);
        match (backend, class) {
            (B_SWAR, CL_URI) => simd::swar_uri(&mut b),
            (B_SWAR, CL_VALUE) => simd::swar_header_value(&mut b),
            (B_SWAR, _) => simd::swar_header_name(&mut b),
            #[cfg(all(not(miri), not(verif_nosimd)))]
            (B_SSE42, CL_URI) => simd::sse42_uri(&mut b),
            #[cfg(all(not(miri), not(verif_nosimd)))]
            (B_SSE42, _) => simd::sse42_header_value(&mut b),
            #[cfg(all(not(miri), not(verif_nosimd)))]
            (B_AVX2, CL_URI) => simd::avx2_uri(&mut b),
            #[cfg(all(not(miri), not(verif_nosimd)))]
            (B_AVX2, _) => simd::avx2_header_value(&mut b),
            // no SSE4.2 / AVX2 modules in this build of httparse (Miri, or the harness built
            // against a SIMD-disabled httparse; C12 is never run from that harness)
            #[cfg(any(miri, verif_nosimd))]
            (B_SSE42, _) | (B_AVX2, _) => {}
            (B_NEON, c) => neon_call(c, &mut b),
            (_, CL_URI) => simd::dispatch_uri(&mut b),
            (_, CL_VALUE) => simd::dispatch_header_value(&mut b),
            (_, _) => simd::dispatch_header_name(&mut b),
        }
    }
    b.pos()
}

pub fn check(r: &Runner, ctx: &mut Ctx, l: &mut Local, rec: &CaseRec) -> Result<(), Violation> {
    if rec.sub == "block" {
        return check_block(r, l, rec);
    }
    if rec.sub == "predicates" {
        return check_predicates(r, l, rec);
    }
    let backend = rec.cfg;
    let class = rec.cap as u8;
    let start = rec.aux.first().copied().unwrap_or(0) as usize;
    if backend == B_DISPATCH {
        let cell = rec.aux.get(1).copied().unwrap_or(0) as u8;
        if BACKEND.load(std::sync::atomic::Ordering::Relaxed) != cell {
            set_backend(cell);
        }
    }
    ctx.ensure(rec.buf.len(), 1);
    write_inflight_scanner(backend, class, rec.place.code(), start as u16, rec.aux.get(1).copied().unwrap_or(0) as u8, &rec.buf);
    let data = ctx.bufs.place(&rec.buf, rec.place);
    IN_PARSER.with(|c| c.set(true));
    let res = std::panic::catch_unwind(|| run_scanner(backend, class, data, start));
    IN_PARSER.with(|c| c.set(false));
    clear_inflight();
    let pos = match res {
        Ok(p) => p,
        Err(_) => return Err(Violation::new(format!("C12/panic/{}/{}", bname(backend), cname(class)), "scanner panicked", rec)),
    };
    let naive = start + rec.buf[start..].iter().position(|&b| !in_class(class, b)).unwrap_or(rec.buf.len() - start);
    if pos != naive {
        return Err(Violation::new(
            format!("C12/{}/{}/{}", bname(backend), cname(class), if pos > naive { "steps-over" } else { "stops-early" }),
            format!("{} scanner for the {} class started at {} stopped at {} but the first out-of-class byte is at {} (length {}, alignment {} mod 32)",
                bname(backend), cname(class), start, pos, naive, rec.buf.len(), data.as_ptr() as usize % 32),
            rec,
        ));
    }
    if l.counting {
        l.bump(match backend { 0 => "backend:swar", 1 => "backend:sse4.2", 2 => "backend:avx2", 3 => "backend:neon-emulated", _ => "backend:dispatch" });
    }
    let nt = (naive >= 1 && naive < rec.buf.len()) || rec.buf.len() >= 8;
    r.account(l, rec, nt, &format!("{} {} stops at {}", bname(backend), cname(class), pos));
    Ok(())
}

fn check_block(r: &Runner, l: &mut Local, rec: &CaseRec) -> Result<(), Violation> {
    let class = rec.cap as u8;
    let mut blk = [0u8; 8];
    blk.copy_from_slice(&rec.buf[..8]);
    let got = if class == CL_URI { simd::swar_uri_block(blk) } else { simd::swar_header_value_block(blk) };
    let naive = blk.iter().position(|&b| !in_class(class, b)).unwrap_or(8);
    if got > naive || got > 8 {
        return Err(Violation::new(
            format!("C12/swar-block/{}/steps-over", cname(class)),
            format!("SWAR block function for the {} class returned {} for {:02x?} but byte {} is out of class", cname(class), got, blk, naive),
            rec,
        ));
    }
    if l.counting && got < naive {
        l.bump("swar-block:conservative-early-stop");
    }
    r.account(l, rec, naive < 8 || true, "swar block");
    Ok(())
}

fn check_predicates(r: &Runner, l: &mut Local, rec: &CaseRec) -> Result<(), Violation> {
    let b = rec.buf[0];
    let checks: [(&str, bool, bool); 4] = [
        ("is_uri_token", httparse::_verif::is_uri_token(b), in_class(CL_URI, b)),
        ("is_header_value_token", httparse::_verif::is_header_value_token(b), in_class(CL_VALUE, b)),
        ("is_header_name_token", httparse::_verif::is_header_name_token(b), in_class(CL_NAME, b)),
        ("is_method_token", httparse::_verif::is_method_token(b), in_class(CL_NAME, b)),
    ];
    for (name, got, want) in checks {
        if got != want {
            return Err(Violation::new(format!("C12/predicate/{}", name), format!("{}({:#04x}) = {} but the class says {}", name, b, got, want), rec));
        }
    }
    r.account(l, rec, true, "class predicates");
    Ok(())
}

fn filler(class: u8, kind: u64, i: usize, rng: &mut Lcg) -> u8 {
    match kind {
        0 => b'a',
        1 => {
            // boundary in-class bytes
            let opts: &[u8] = match class {
                CL_URI => &[0x21, 0x7e, 0x80, 0xff, b'a'],
                CL_VALUE => &[0x20, 0x09, 0x7e, 0x80, 0xff, 0x21],
                _ => &[b'!', b'~', b'z', b'0', b'-', b'|'],
            };
            opts[i % opts.len()]
        }
        _ => loop {
            let b = rng.below(256) as u8;
            if in_class(class, b) {
                return b;
            }
        },
    }
}

fn scanner_rec(backend: u8, class: u8, cell: u8, buf: Vec<u8>, start: usize, place: Placement) -> CaseRec {
    let mut rec = CaseRec::new("scanner", Entry::Chunk, backend, class as usize, buf);
    rec.aux = vec![start as u64, cell as u64];
    rec.place = place;
    rec
}

pub fn run(r: &Runner) {
    let cs = combos();
    r.note(format!("scanner combos checked: {:?}", cs.iter().map(|(b, c)| format!("{}:{}", bname(*b), cname(*c))).collect::<Vec<_>>()));
    if !crate::neon_gen::AVAILABLE {
        r.inconclusive.lock().unwrap().push("NEON sub-check unavailable: the transformed neon.rs did not build against the intrinsic emulation (an intrinsic outside the emulated set?)".into());
    }
    // class predicates, all 256 bytes
    r.par_enum("class predicates on all 256 byte values", 256, |_ctx, l, idx| {
        let rec = CaseRec::new("predicates", Entry::Chunk, 0, 0, vec![idx as u8]);
        check_predicates(r, l, &rec)
    });
    let maxlen: usize = 100;
    let nfill: u64 = if r.quick() { 2 } else { 3 };
    // (len, pos) pairs, pos in 0..len
    let mut offs = vec![0u64];
    for len in 0..=maxlen {
        offs.push(offs.last().unwrap() + len as u64);
    }
    let pairs = *offs.last().unwrap();
    // dispatch is run under each forced cell value, one phase per value (global cell)
    let cells: Vec<u8> = usable_backends();
    let mut phases: Vec<(Vec<(u8, u8)>, u8)> = vec![(cs.iter().cloned().filter(|c| c.0 != B_DISPATCH).collect(), 0)];
    for &cell in &cells {
        phases.push((cs.iter().cloned().filter(|c| c.0 == B_DISPATCH).collect(), cell));
    }
    for (pcombos, cell) in &phases {
        if pcombos.is_empty() {
            continue;
        }
        if *cell != 0 {
            set_backend(*cell);
        }
        let label = if *cell == 0 { "direct backends".to_string() } else { format!("dispatching entry with the cell forced to {}", backend_name(*cell)) };
        let total = pairs * 256 * nfill * pcombos.len() as u64;
        r.par_enum(&format!("{}: every length 0..={} × every position × 256 values × {} fillers, end-abutting (alignment = -len mod 32)", label, maxlen, nfill), total, |ctx, l, idx| {
            let mut x = idx;
            let val = (x % 256) as u8;
            x /= 256;
            let fk = x % nfill;
            x /= nfill;
            let (backend, class) = pcombos[(x % pcombos.len() as u64) as usize];
            x /= pcombos.len() as u64;
            let li = offs.partition_point(|&o| o <= x) - 1;
            let len = li;
            let pos = (x - offs[li]) as usize;
            let mut rng = Lcg(mix(idx));
            let mut buf: Vec<u8> = (0..len).map(|i| filler(class, fk, i, &mut rng)).collect();
            buf[pos] = val;
            check(r, ctx, l, &scanner_rec(backend, class, *cell, buf, 0, Placement::End))
        });
        // page-straddling placements: a 4 KiB page boundary falls k bytes after the start of the
        // buffer, for every k (a tail path that treats "the rest of this page" specially must
        // still stop at the first out-of-class byte, or at the end, wherever the boundary is)
        {
            let maxl = 72u64;
            let tri: Vec<u64> = (0..=maxl + 1).scan(0u64, |a, l| { let v = *a; *a += l + 1; Some(v) }).collect(); // prefix sums of (len+1)
            let total = tri[maxl as usize + 1] * 3 * pcombos.len() as u64;
            r.par_enum(&format!("{}: every length 0..=72 × every page-boundary offset 0..=len × {{all in class, offender in the last 8 bytes, offender right after the boundary}}, buffer straddling an interior page boundary", label), total, |ctx, l, idx| {
                let mut x = idx;
                let var = x % 3;
                x /= 3;
                let (backend, class) = pcombos[(x % pcombos.len() as u64) as usize];
                x /= pcombos.len() as u64;
                let len = tri.partition_point(|&o| o <= x) - 1;
                let k = (x - tri[len]) as usize;
                let mut rng = Lcg(mix(idx));
                let mut buf: Vec<u8> = (0..len).map(|i| filler(class, 1 + (idx % 2), i, &mut rng)).collect();
                let bad = [0x00u8, 0x7f, b' ', 0x1f][(idx % 4) as usize];
                let bad = if class == CL_VALUE && bad == b' ' { 0x0a } else { bad };
                match var {
                    1 if len > 0 => {
                        let p = len - 1 - (mix(idx) as usize % len.min(8));
                        buf[p] = bad;
                    }
                    2 if k < len => buf[k] = bad,
                    _ => {}
                }
                check(r, ctx, l, &scanner_rec(backend, class, *cell, buf, 0, Placement::Cross(k.min(127) as u8)))
            });
        }
        // periodic fillers: the buffer repeats one 8-byte word (with '_', '~', digits), every
        // position × 256 values — a scanner that remembers or compares whole words sees the
        // offender next to an identical clean word
        {
            const WORDS: [&[u8; 8]; 3] = [b"session_", b"aB3-_.~z", b"0a_Z9|x!"];
            let lens: [usize; 6] = [16, 24, 33, 40, 64, 100];
            let per: u64 = lens.iter().map(|l| *l as u64).sum();
            let total = per * 256 * WORDS.len() as u64 * pcombos.len() as u64;
            r.par_enum(&format!("{}: buffers repeating one 8-byte word (3 words) at lengths {{16,24,33,40,64,100}} × every position × 256 values", label), total, |ctx, l, idx| {
                let mut x = idx;
                let val = (x % 256) as u8;
                x /= 256;
                let w = WORDS[(x % WORDS.len() as u64) as usize];
                x /= WORDS.len() as u64;
                let (backend, class) = pcombos[(x % pcombos.len() as u64) as usize];
                x /= pcombos.len() as u64;
                let mut li = 0;
                while x >= lens[li] as u64 {
                    x -= lens[li] as u64;
                    li += 1;
                }
                let len = lens[li];
                let pos = x as usize;
                let mut buf: Vec<u8> = (0..len).map(|i| w[i % 8]).collect();
                buf[pos] = val;
                check(r, ctx, l, &scanner_rec(backend, class, *cell, buf, 0, Placement::End))
            });
        }
        // long buffers (unrolled multi-block loops): every length 101..=300 (quick: step 3 plus
        // all multiples of 16 +-1) × every position × 40 boundary values × 2 fillers
        let long_lens: Vec<usize> = (101..=300usize).filter(|l| !r.quick() || l % 3 == 0 || l % 16 <= 1 || l % 16 == 15).collect();
        const BV: [u8; 40] = [0x00, 0x01, 0x08, 0x09, 0x0a, 0x0b, 0x0c, 0x0d, 0x0e, 0x10, 0x1f, 0x20, 0x21, 0x22, 0x28, 0x29, 0x2c, 0x2f, 0x3a, 0x3b, 0x3c, 0x3d, 0x3e, 0x3f, 0x40, 0x5b, 0x5c, 0x5d, 0x7b, 0x7d, 0x7e, 0x7f, 0x80, 0x81, 0x9f, 0xa0, 0xc3, 0xe2, 0xfe, 0xff];
        let mut lo2 = vec![0u64];
        for &len in &long_lens {
            lo2.push(lo2.last().unwrap() + len as u64);
        }
        let total = *lo2.last().unwrap() * BV.len() as u64 * 2 * pcombos.len() as u64;
        r.par_enum(&format!("{}: {} lengths in 101..=300 × every position × 40 boundary values × 2 fillers (boundary-mix, random in-class), end-abutting", label, long_lens.len()), total, |ctx, l, idx| {
            let mut x = idx;
            let fk = 1 + x % 2;
            x /= 2;
            let val = BV[(x % BV.len() as u64) as usize];
            x /= BV.len() as u64;
            let (backend, class) = pcombos[(x % pcombos.len() as u64) as usize];
            x /= pcombos.len() as u64;
            let li = lo2.partition_point(|&o| o <= x) - 1;
            let len = long_lens[li];
            let pos = (x - lo2[li]) as usize;
            let mut rng = Lcg(mix(idx));
            let mut buf: Vec<u8> = (0..len).map(|i| filler(class, fk, i, &mut rng)).collect();
            buf[pos] = val;
            check(r, ctx, l, &scanner_rec(backend, class, *cell, buf, 0, Placement::End))
        });
        // very long buffers (8x unrolled loops, counters): selected lengths 301..=4200
        let vl: Vec<usize> = {
            let mut v: Vec<usize> = vec![];
            for b in [320usize, 384, 448, 512, 640, 768, 1024, 1536, 2048, 4096] {
                for d in [-1i64, 0, 1, 17, 33] {
                    v.push((b as i64 + d) as usize);
                }
            }
            if r.quick() { v.into_iter().step_by(2).collect() } else { v }
        };
        const VV: [u8; 12] = [0x00, 0x09, 0x0a, 0x0d, 0x1f, 0x20, 0x3a, 0x7f, 0x80, 0xff, b'(', 0x0b];
        let mut lo3 = vec![0u64];
        for &len in &vl {
            lo3.push(lo3.last().unwrap() + len as u64);
        }
        let total = *lo3.last().unwrap() * VV.len() as u64 * pcombos.len() as u64;
        r.par_enum(&format!("{}: {} lengths in 319..=4129 (around multiples of 64..4096) × every position × 12 boundary values, boundary-mix filler", label, vl.len()), total, |ctx, l, idx| {
            let mut x = idx;
            let val = VV[(x % VV.len() as u64) as usize];
            x /= VV.len() as u64;
            let (backend, class) = pcombos[(x % pcombos.len() as u64) as usize];
            x /= pcombos.len() as u64;
            let li = lo3.partition_point(|&o| o <= x) - 1;
            let len = vl[li];
            let pos = (x - lo3[li]) as usize;
            let mut rng = Lcg(mix(idx));
            let mut buf: Vec<u8> = (0..len).map(|i| filler(class, 1 + (idx % 2), i, &mut rng)).collect();
            buf[pos] = val;
            check(r, ctx, l, &scanner_rec(backend, class, *cell, buf, 0, Placement::End))
        });
        // all-in-class buffers of every length (stop at end of buffer), all 64 interior
        // offsets + start-abutting + end-abutting
        r.par_enum(&format!("{}: all-in-class buffers of every length 0..=400 × 66 placements × 3 fillers", label), 401 * 66 * 3 * pcombos.len() as u64, |ctx, l, idx| {
            let mut x = idx;
            let fk = x % 3;
            x /= 3;
            let pl = x % 66;
            x /= 66;
            let (backend, class) = pcombos[(x % pcombos.len() as u64) as usize];
            let len = (x / pcombos.len() as u64) as usize;
            let mut rng = Lcg(mix(idx));
            let buf: Vec<u8> = (0..len).map(|i| filler(class, fk, i, &mut rng)).collect();
            let place = match pl { 0 => Placement::End, 1 => Placement::Start, o => Placement::Interior((o - 2) as u8) };
            check(r, ctx, l, &scanner_rec(backend, class, *cell, buf, 0, place))
        });
        // one offending byte, every alignment 0..31 (interior) for a reduced grid
        let lens: Vec<usize> = if r.quick() { vec![1, 7, 8, 9, 15, 16, 17, 31, 32, 33, 47, 64, 65, 100] } else { (1..=100).collect() };
        const BAD: [u8; 10] = [0x00, 0x09, 0x0a, 0x0d, 0x1f, 0x20, 0x3a, 0x7f, 0x80, 0xff];
        let mut loffs = vec![0u64];
        for &len in &lens {
            loffs.push(loffs.last().unwrap() + len as u64);
        }
        let total = *loffs.last().unwrap() * 32 * BAD.len() as u64 * pcombos.len() as u64;
        r.par_enum(&format!("{}: {} lengths × every position × 10 boundary values × 32 start alignments (interior)", label, lens.len()), total, |ctx, l, idx| {
            let mut x = idx;
            let al = (x % 32) as u8;
            x /= 32;
            let val = BAD[(x % BAD.len() as u64) as usize];
            x /= BAD.len() as u64;
            let (backend, class) = pcombos[(x % pcombos.len() as u64) as usize];
            x /= pcombos.len() as u64;
            let li = loffs.partition_point(|&o| o <= x) - 1;
            let len = lens[li];
            let pos = (x - loffs[li]) as usize;
            let mut rng = Lcg(mix(idx));
            let mut buf: Vec<u8> = (0..len).map(|i| filler(class, 1, i, &mut rng)).collect();
            buf[pos] = val;
            check(r, ctx, l, &scanner_rec(backend, class, *cell, buf, 0, Placement::Interior(al)))
        });
        // pairs of offending positions (first-of-several selection) and non-zero start cursor
        let plen: usize = if r.quick() { 136 } else { 200 };
        let npairs = (plen * (plen - 1) / 2) as u64;
        r.par_enum(&format!("{}: every pair of offending positions in a {}-byte buffer × 4 byte pairs × 3 start cursors", label, plen), npairs * 4 * 3 * pcombos.len() as u64, |ctx, l, idx| {
            let mut x = idx;
            let sc = x % 3;
            x /= 3;
            let bp = x % 4;
            x /= 4;
            let (backend, class) = pcombos[(x % pcombos.len() as u64) as usize];
            x /= pcombos.len() as u64;
            // unrank pair (p<q)
            let mut p = 0usize;
            let mut rem = x as usize;
            while rem >= plen - 1 - p {
                rem -= plen - 1 - p;
                p += 1;
            }
            let q = p + 1 + rem;
            let (b1, b2) = [(0x7fu8, 0x00u8), (0x00, 0x7f), (0x1f, 0x0a), (0x0d, 0x7f)][bp as usize];
            let mut rng = Lcg(mix(idx));
            let mut buf: Vec<u8> = (0..plen).map(|i| filler(class, 2, i, &mut rng)).collect();
            buf[p] = b1;
            buf[q] = b2;
            // start cursor: 0, just after the first offender, or at the first offender
            let start = match sc { 0 => 0, 1 => p + 1, _ => p };
            check(r, ctx, l, &scanner_rec(backend, class, *cell, buf, start, Placement::End))
        });
    }
    // pairs of offenders deep inside long buffers (deferred checks that are skipped on one exit)
    {
        let direct: Vec<(u8, u8)> = cs.iter().cloned().filter(|c| c.0 != B_DISPATCH).collect();
        const LENS: [usize; 3] = [300, 700, 1300];
        const PAIRS: [(u8, u8); 6] = [(0x7f, 0x20), (0x7f, 0x0d), (0x00, 0x7f), (0x0a, 0x7f), (0x7f, 0x7f), (0x1f, 0x3a)];
        const GAPS: [usize; 6] = [1, 2, 17, 33, 64, 129];
        let per_len: u64 = 160;
        let total = direct.len() as u64 * LENS.len() as u64 * per_len * PAIRS.len() as u64 * GAPS.len() as u64;
        r.par_enum("direct backends: pairs of offenders deep inside 300/700/1300-byte buffers: first offender at 160 positions in the last 60% × 6 gaps × 6 byte pairs, random in-class filler", total, |ctx, l, idx| {
            let mut x = idx;
            let gap = GAPS[(x % 6) as usize];
            x /= 6;
            let (b1, b2) = PAIRS[(x % 6) as usize];
            x /= 6;
            let pk = x % per_len;
            x /= per_len;
            let len = LENS[(x % 3) as usize];
            let (backend, class) = direct[(x / 3) as usize];
            let p = len * 2 / 5 + (pk as usize * (len * 3 / 5 - 140)) / per_len as usize;
            let q = (p + gap).min(len - 1);
            let mut rng = Lcg(mix(idx));
            let mut buf: Vec<u8> = (0..len).map(|i| filler(class, 2, i, &mut rng)).collect();
            buf[p] = b1;
            buf[q] = b2;
            check(r, ctx, l, &scanner_rec(backend, class, 0, buf, 0, Placement::End))
        });
    }
    set_backend(0);
    // SWAR block functions over a boundary alphabet ^ 8
    const A16: [u8; 16] = [0x00, 0x08, 0x09, 0x0a, 0x1f, 0x20, 0x21, 0x22, b'a', 0x7e, 0x7f, 0x80, 0x81, 0xc3, 0xfe, 0xff];
    const A8: [u8; 8] = [0x09, 0x1f, 0x20, 0x21, 0x7e, 0x7f, 0x80, 0xff];
    let (alpha, bits): (&[u8], u32) = if r.quick() { (&A8, 3) } else { (&A16, 4) };
    let total = 1u64 << (bits * 8);
    r.par_enum(&format!("SWAR block functions (target, value) over a {}-value boundary alphabet ^ 8", alpha.len()), total * 2, |_ctx, l, idx| {
        let class = (idx % 2) as u8;
        let mut x = idx / 2;
        let mut blk = vec![0u8; 8];
        for b in blk.iter_mut() {
            *b = alpha[(x & ((1 << bits) - 1)) as usize];
            x >>= bits;
        }
        let rec = CaseRec::new("block", Entry::Chunk, 0, class as usize, blk);
        check_block(r, l, &rec)
    });
}
