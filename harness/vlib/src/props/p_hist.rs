//! C18 — history independence. Stateful generation: a history of 1..4 earlier parse
//! calls on one Request/Response value (and its header array), then a probe call;
//! compared with the probe on a fresh value whose array length equals the reused value's
//! `headers.len()` just before the probe.

use super::common::*;
use super::p_meta::{norm, Norm};
use crate::choice::Choice;
use crate::engine::{CaseRec, Local, Runner, Violation};
use crate::gen::{self, Profile};
use crate::real::*;
use httparse::{Header, Request, Response, Status, EMPTY_HEADER};
use std::mem::MaybeUninit;

#[derive(Clone, Copy, Debug)]
struct Op {
    entry: Entry,
    cfg: u8,
    ucap: usize,
}

fn conv(r: httparse::Result<usize>) -> St {
    match r {
        Ok(Status::Complete(n)) => St::Complete(n),
        Ok(Status::Partial) => St::Partial,
        Err(e) => St::Err(ErrKind::from_real(e)),
    }
}

fn blank_obs(buf: &[u8]) -> Obs {
    Obs {
        st: St::Partial,
        buf_ptr: buf.as_ptr() as usize,
        buf_len: buf.len(),
        method: None,
        path: None,
        version: None,
        code: None,
        reason: None,
        chunk_size: None,
        hslice: Sl { ptr: 0, len: 0 },
        hslice_before: Sl { ptr: 0, len: 0 },
        array_ptr: 0,
        headers: vec![],
        array_raw: vec![],
        array_before: vec![],
        method_b: None,
        path_b: None,
        reason_b: None,
        headers_b: vec![],
        allocs: 0,
        counters: [0; 11],
        canary_ok: true,
    }
}

fn sl(b: &[u8]) -> Sl {
    Sl { ptr: b.as_ptr() as usize, len: b.len() }
}

fn collect_headers(o: &mut Obs, hs: &[Header<'_>]) {
    o.hslice = Sl { ptr: hs.as_ptr() as usize, len: hs.len() };
    for h in hs {
        o.headers.push((sl(h.name.as_bytes()), sl(h.value)));
        o.headers_b.push((h.name.as_bytes().to_vec(), h.value.to_vec()));
    }
}

fn req_call<'h, 'b>(req: &mut Request<'h, 'b>, op: Op, buf: &'b [u8], u: &'h mut [MaybeUninit<Header<'b>>]) -> St {
    let cfg = make_config(op.cfg);
    note_inflight(op.entry, op.cfg, req.headers.len().max(op.ucap), buf);
    conv(match op.entry {
        Entry::ReqParse => req.parse(buf),
        Entry::ReqCfg => cfg.parse_request(req, buf),
        Entry::ReqUninit => req.parse_with_uninit_headers(buf, u),
        _ => cfg.parse_request_with_uninit_headers(req, buf, u),
    })
}

fn resp_call<'h, 'b>(resp: &mut Response<'h, 'b>, op: Op, buf: &'b [u8], u: &'h mut [MaybeUninit<Header<'b>>]) -> St {
    let cfg = make_config(op.cfg);
    note_inflight(op.entry, op.cfg, resp.headers.len().max(op.ucap), buf);
    conv(match op.entry {
        Entry::RespParse => resp.parse(buf),
        Entry::RespCfg => cfg.parse_response(resp, buf),
        Entry::RespUninit => httparse::ParserConfig::default().parse_response_with_uninit_headers(resp, buf, u),
        _ => cfg.parse_response_with_uninit_headers(resp, buf, u),
    })
}

/// Returns (reused-value probe, fresh-value probe, headers.len() before the probe,
/// statuses of the history calls).
fn interpret(kind: Kind, ops: &[Op], bufs: &[&[u8]], probe: Op, pbuf: &[u8], cap0: usize) -> (Obs, Obs, usize, Vec<St>) {
    let mut arr: Vec<Header<'_>> = vec![EMPTY_HEADER; cap0];
    let mut uarrs: Vec<Vec<MaybeUninit<Header<'_>>>> =
        ops.iter().chain(std::iter::once(&probe)).map(|o| vec![MaybeUninit::uninit(); o.ucap]).collect();
    let mut fresh_u: Vec<MaybeUninit<Header<'_>>> = vec![MaybeUninit::uninit(); probe.ucap];
    let mut sts = vec![];
    let mut o1 = blank_obs(pbuf);
    let mut o2 = blank_obs(pbuf);
    let len_before;
    let mut uit = uarrs.iter_mut();
    if kind == Kind::Request {
        let mut req = Request::new(&mut arr[..]);
        for (i, op) in ops.iter().enumerate() {
            let u = uit.next().unwrap();
            sts.push(req_call(&mut req, *op, bufs[i], &mut u[..]));
        }
        len_before = req.headers.len();
        o1.st = req_call(&mut req, probe, pbuf, &mut uit.next().unwrap()[..]);
        o1.method = req.method.map(|s| sl(s.as_bytes()));
        o1.path = req.path.map(|s| sl(s.as_bytes()));
        o1.version = req.version;
        // reading `headers` is sound when the probe is Complete, or when the last call
        // that replaced it was an initialised-array call / a Complete uninit call — which
        // is what the crate promises (C17). Read only on Complete to stay independent.
        if matches!(o1.st, St::Complete(_)) {
            collect_headers(&mut o1, &*req.headers);
        }
        let mut arr2: Vec<Header<'_>> = vec![EMPTY_HEADER; len_before];
        let mut req2 = Request::new(&mut arr2[..]);
        o2.st = req_call(&mut req2, probe, pbuf, &mut fresh_u[..]);
        o2.method = req2.method.map(|s| sl(s.as_bytes()));
        o2.path = req2.path.map(|s| sl(s.as_bytes()));
        o2.version = req2.version;
        if matches!(o2.st, St::Complete(_)) {
            collect_headers(&mut o2, &*req2.headers);
        }
    } else {
        let mut resp = Response::new(&mut arr[..]);
        for (i, op) in ops.iter().enumerate() {
            let u = uit.next().unwrap();
            sts.push(resp_call(&mut resp, *op, bufs[i], &mut u[..]));
        }
        len_before = resp.headers.len();
        o1.st = resp_call(&mut resp, probe, pbuf, &mut uit.next().unwrap()[..]);
        o1.version = resp.version;
        o1.code = resp.code;
        o1.reason = resp.reason.map(|s| sl(s.as_bytes()));
        if matches!(o1.st, St::Complete(_)) {
            collect_headers(&mut o1, &*resp.headers);
        }
        let mut arr2: Vec<Header<'_>> = vec![EMPTY_HEADER; len_before];
        let mut resp2 = Response::new(&mut arr2[..]);
        o2.st = resp_call(&mut resp2, probe, pbuf, &mut fresh_u[..]);
        o2.version = resp2.version;
        o2.code = resp2.code;
        o2.reason = resp2.reason.map(|s| sl(s.as_bytes()));
        if matches!(o2.st, St::Complete(_)) {
            collect_headers(&mut o2, &*resp2.headers);
        }
    }
    (o1, o2, len_before, sts)
}

/// State of a value after one call of a sequence, as raw (pointer, length) pairs: sequences
/// run through different entry points over the *same* buffers are directly comparable.
#[derive(Clone, Debug, PartialEq)]
pub struct StepObs {
    pub st: St,
    pub method: Option<Sl>,
    pub path: Option<Sl>,
    pub version: Option<u8>,
    pub code: Option<u16>,
    pub reason: Option<(usize, Vec<u8>)>,
    /// only read when the call completed
    pub headers: Vec<(Sl, Sl)>,
}

/// One value, one entry point, a sequence of buffers: the observable state after every call.
pub fn run_sequence(kind: Kind, entry: Entry, cfg: u8, bufs: &[&[u8]], cap: usize) -> Vec<StepObs> {
    let op = Op { entry, cfg, ucap: cap };
    let mut arr: Vec<Header<'_>> = vec![EMPTY_HEADER; cap];
    let mut uarrs: Vec<Vec<MaybeUninit<Header<'_>>>> = bufs.iter().map(|_| vec![MaybeUninit::uninit(); cap]).collect();
    let mut out = vec![];
    let hs = |h: &[Header<'_>]| h.iter().map(|h| (sl(h.name.as_bytes()), sl(h.value))).collect::<Vec<_>>();
    // the empty reason may be a static string whose address differs between code paths:
    // compare non-empty reasons by address, empty ones by emptiness
    let rs = |r: Option<&str>| r.map(|s| (if s.is_empty() { 0 } else { s.as_ptr() as usize }, s.as_bytes().to_vec()));
    if kind == Kind::Request {
        let mut req = Request::new(&mut arr[..]);
        for (b, u) in bufs.iter().zip(uarrs.iter_mut()) {
            // an uninit call gets as many slots as the value currently lends through
            // `headers` (after a Complete that is the number of headers it found), so that
            // the capacity seen by every entry point is the same at every step
            let n = req.headers.len().min(u.len());
            let st = req_call(&mut req, op, b, &mut u[..n]);
            let headers = if matches!(st, St::Complete(_)) { hs(&*req.headers) } else { vec![] };
            out.push(StepObs { st, method: req.method.map(|s| sl(s.as_bytes())), path: req.path.map(|s| sl(s.as_bytes())), version: req.version, code: None, reason: None, headers });
        }
    } else {
        let mut resp = Response::new(&mut arr[..]);
        for (b, u) in bufs.iter().zip(uarrs.iter_mut()) {
            let n = resp.headers.len().min(u.len());
            let st = resp_call(&mut resp, op, b, &mut u[..n]);
            let headers = if matches!(st, St::Complete(_)) { hs(&*resp.headers) } else { vec![] };
            out.push(StepObs { st, method: None, path: None, version: resp.version, code: resp.code, reason: rs(resp.reason), headers });
        }
    }
    out
}

/// An uninit entry point called on a fresh value that owns a non-empty array of its own
/// (`decoy` sentinel headers): the call must parse into the uninit slice of `ucap` slots and
/// never into the value's own array. Returns the state after the call and whether the
/// value's own array (and, after a non-Complete call, its `headers` slice) was left alone.
pub fn uninit_with_decoy(kind: Kind, entry: Entry, cfg: u8, buf: &[u8], ucap: usize, decoy: usize) -> (StepObs, bool) {
    static SENT_NAME: &str = "decoy-sentinel";
    static SENT_VALUE: &[u8] = b"decoy value";
    let op = Op { entry, cfg, ucap };
    let mut own: Vec<Header<'_>> = vec![Header { name: SENT_NAME, value: SENT_VALUE }; decoy];
    let own_ptr = own.as_ptr() as usize;
    let mut u: Vec<MaybeUninit<Header<'_>>> = vec![MaybeUninit::uninit(); ucap];
    let hs = |h: &[Header<'_>]| h.iter().map(|h| (sl(h.name.as_bytes()), sl(h.value))).collect::<Vec<_>>();
    let rs = |r: Option<&str>| r.map(|s| (if s.is_empty() { 0 } else { s.as_ptr() as usize }, s.as_bytes().to_vec()));
    let (obs, untouched_slice) = if kind == Kind::Request {
        let mut req = Request::new(&mut own[..]);
        let st = req_call(&mut req, op, buf, &mut u[..]);
        let complete = matches!(st, St::Complete(_));
        let headers = if complete { hs(&*req.headers) } else { vec![] };
        let ok = complete || (req.headers.as_ptr() as usize == own_ptr && req.headers.len() == decoy);
        (StepObs { st, method: req.method.map(|s| sl(s.as_bytes())), path: req.path.map(|s| sl(s.as_bytes())), version: req.version, code: None, reason: None, headers }, ok)
    } else {
        let mut resp = Response::new(&mut own[..]);
        let st = resp_call(&mut resp, op, buf, &mut u[..]);
        let complete = matches!(st, St::Complete(_));
        let headers = if complete { hs(&*resp.headers) } else { vec![] };
        let ok = complete || (resp.headers.as_ptr() as usize == own_ptr && resp.headers.len() == decoy);
        (StepObs { st, method: None, path: None, version: resp.version, code: resp.code, reason: rs(resp.reason), headers }, ok)
    };
    let own_intact = own.iter().all(|h| h.name.as_ptr() == SENT_NAME.as_ptr() && h.value.as_ptr() == SENT_VALUE.as_ptr());
    (obs, untouched_slice && own_intact)
}

/// aux = [entry, cfg, ucap, kind, a, b] per history op, then the probe's ucap.
/// kind 0: the op parses its own buffer rec.bufs[i]; kind 1: it parses arena[a..b], a slice
/// of the *same allocation* as the probe (arena = bufs[n] ++ probe ++ bufs[n+1]).
fn decode_ops(rec: &CaseRec) -> (Vec<(Op, u64, usize, usize)>, Op) {
    let n = rec.bufs.len().saturating_sub(2);
    let mut ops = vec![];
    for i in 0..n {
        let g = |k: usize| rec.aux.get(6 * i + k).copied().unwrap_or(0);
        ops.push((
            Op { entry: Entry::from_u8(g(0) as u8), cfg: g(1) as u8, ucap: (g(2) as usize).min(4096) },
            g(3),
            g(4) as usize,
            g(5) as usize,
        ));
    }
    let probe = Op { entry: rec.entry, cfg: rec.cfg, ucap: (rec.aux.get(6 * n).copied().unwrap_or(8) as usize).min(4096) };
    (ops, probe)
}

pub fn check(r: &Runner, _ctx: &mut Ctx, l: &mut Local, rec: &CaseRec) -> Result<(), Violation> {
    let kind = rec.kind();
    let (mut ops4, probe) = decode_ops(rec);
    // history entries must be of the probe's kind
    for (o, _, _, _) in ops4.iter_mut() {
        if o.entry.kind() != kind {
            o.entry = entries_of(kind)[(o.entry as usize) % 4];
        }
        if !o.entry.takes_cfg() {
            o.cfg = 0;
        }
    }
    let n = ops4.len();
    let empty: Vec<u8> = vec![];
    let before = rec.bufs.get(n).unwrap_or(&empty);
    let after = rec.bufs.get(n + 1).unwrap_or(&empty);
    let arena: Vec<u8> = [&before[..], &rec.buf[..], &after[..]].concat();
    let p0 = before.len();
    let pbuf: &[u8] = &arena[p0..p0 + rec.buf.len()];
    let ops: Vec<Op> = ops4.iter().map(|x| x.0).collect();
    let slices: Vec<&[u8]> = ops4
        .iter()
        .enumerate()
        .map(|(i, (_, k, a, b))| {
            if *k == 1 {
                let a = (*a).min(arena.len());
                let b = (*b).clamp(a, arena.len());
                &arena[a..b]
            } else {
                &rec.bufs[i][..]
            }
        })
        .collect();
    IN_PARSER.with(|c| c.set(true));
    let res = std::panic::catch_unwind(std::panic::AssertUnwindSafe(|| {
        interpret(kind, &ops, &slices, probe, pbuf, rec.cap)
    }));
    IN_PARSER.with(|c| c.set(false));
    let (o1, o2, len_before, sts) = match res {
        Ok(x) => x,
        Err(_) => return Err(Violation::new("C18/panic", "a call in the history or the probe panicked", rec)),
    };
    // the documented loop (parse, read more, parse again on the same value) must behave like a
    // fresh value each time: as long as no call has completed, the value still lends the
    // caller's whole array (C17's restore clause, seen here over histories)
    if sts.iter().all(|s| !matches!(s, St::Complete(_))) && len_before != rec.cap {
        let hist: Vec<String> = sts.iter().zip(ops.iter()).map(|(s, o)| format!("{}[cfg {:#04x}] -> {}", o.entry.name(), o.cfg, s.show())).collect();
        return Err(Violation::new(
            format!("C18/loop-differs-from-fresh-value/{}", kind.name()),
            format!("after the history [{}] (no call completed) the value's headers slice has length {} instead of the caller's {}: the next parse of the documented loop no longer behaves like a parse on a fresh value", hist.join("; "), len_before, rec.cap),
            rec,
        ));
    }
    let (n1, n2): (Norm, Norm) = (norm(&o1), norm(&o2));
    let same = n1.st == n2.st
        && (!matches!(n1.st, St::Complete(_))
            || (n1.method == n2.method
                && n1.path == n2.path
                && n1.version == n2.version
                && n1.code == n2.code
                && n1.reason == n2.reason
                && n1.headers == n2.headers));
    if !same {
        let hist: Vec<String> = sts.iter().zip(ops.iter()).map(|(s, o)| format!("{}[cfg {:#04x}] -> {}", o.entry.name(), o.cfg, s.show())).collect();
        return Err(Violation::new(
            format!("C18/history-dependent/{}", kind.name()),
            format!(
                "probe {} [cfg {:#04x}] after history [{}] gives {} (fields {:?}/{:?}/{:?}/{:?}/{:?}, {} headers); on a fresh value with an array of length {} it gives {} (fields {:?}/{:?}/{:?}/{:?}/{:?}, {} headers)",
                probe.entry.name(), probe.cfg, hist.join("; "), n1.st.show(), n1.method, n1.path, n1.version, n1.code, n1.reason, n1.headers.len(),
                len_before, n2.st.show(), n2.method, n2.path, n2.version, n2.code, n2.reason, n2.headers.len()
            ),
            rec,
        ));
    }
    if l.counting {
        l.bump(status_hist_key(&o1.st));
        l.bump(kind_hist_key(kind));
        for s in &sts {
            l.bump(match s {
                St::Complete(_) => "history-call:Complete",
                St::Partial => "history-call:Partial",
                _ => "history-call:Err",
            });
        }
        if len_before != rec.cap {
            l.bump("headers-slice-shrunk-before-probe");
        }
        if ops4.iter().any(|x| x.1 == 1) {
            l.bump("history-with-a-slice-of-the-probe's-allocation");
        }
    }
    let interesting_hist = sts.iter().any(|s| matches!(s, St::Complete(_) | St::Partial));
    let nt = interesting_hist && (o1.version.is_some() || o1.method.is_some());
    r.account(l, rec, nt, &format!("history {:?} probe {}", sts.iter().map(|s| s.class()).collect::<Vec<_>>(), o1.st.show()));
    Ok(())
}

fn kind_of(_k: u64, e: Entry) -> Kind {
    e.kind()
}

pub fn gen_history(u: &mut Choice, profile: &Profile) -> CaseRec {
    let kind = if u.chance(128) { Kind::Response } else { Kind::Request };
    let es = entries_of(kind);
    let (pbuf, nlines) = gen::message(u, kind, profile);
    let mut pcfg = pick_cfg(u);
    let pentry = pick_entry(u, kind, &mut pcfg);
    // occasionally an array whose length sits at a narrow-counter boundary
    let cap0 = if u.chance(3) { [255usize, 256, 257, 65_535, 65_536, 65_537, 70_000][u.below(7)] } else { pick_cap(u, nlines + 1) };
    let nops = u.range(1, 4);
    // shrinking view: the probe is a short prefix of a message that an earlier call saw in
    // full at the same address (a parser that remembers where a field started must not
    // trust that the bytes after it are still part of the buffer)
    let shrink = u.chance(24);
    let (pbuf, shrink_tail) = if shrink && !pbuf.is_empty() {
        let k = if u.chance(128) { u.below(pbuf.len().min(13)) } else { u.below(pbuf.len()) };
        (pbuf[..k].to_vec(), pbuf[k..].to_vec())
    } else {
        (pbuf, vec![])
    };
    let mut bufs = vec![];
    let mut aux = vec![];
    let readme_loop = u.chance(80);
    // the probe lives inside a larger allocation: a few bytes before and after it
    let before: Vec<u8> = match u.weighted(&[160, 50, 46]) {
        0 => vec![],
        1 => b"\r\n".to_vec(),
        _ => {
            let n = u.range(1, 6);
            (0..n).map(|i| b"XY\nZ 9"[i % 6]).collect()
        }
    };
    let after: Vec<u8> = if shrink {
        shrink_tail.clone()
    } else if u.chance(80) {
        b"trailing body\r\n\r\n".to_vec()
    } else {
        vec![]
    };
    let p0 = before.len();
    let alen = p0 + pbuf.len() + after.len();
    for i in 0..nops {
        let mut kind = 0u64;
        let (mut a, mut b) = (0usize, 0usize);
        let buf = if shrink && (i == 0 || u.chance(128)) {
            // the longer view: from the probe's start to the end of the full message (or a bit less)
            kind = 1;
            a = p0;
            b = alen - if u.chance(64) { u.below(alen - p0 + 1).min(8) } else { 0 };
            b = b.max(a);
            vec![]
        } else if readme_loop {
            // growing prefixes of the probe buffer, in place: the documented parse / read more / parse again loop
            let k = (pbuf.len() * (i + 1)) / (nops + 1);
            let jitter = u.below(8);
            kind = 1;
            a = p0;
            b = p0 + (k + jitter).min(pbuf.len());
            vec![]
        } else {
            match u.weighted(&[100, 40, 30, 36, 50, 60]) {
                5 => {
                    // a near-copy of the probe: a few bytes deleted / inserted / case-flipped in
                    // its first 40 bytes (a method, target or reason that is a proper prefix or
                    // extension of the probe's, or equal up to case)
                    let mut b = pbuf.clone();
                    if !b.is_empty() {
                        let o = u.below(b.len().min(40));
                        match u.below(3) {
                            0 => {
                                let n = (1 + u.below(3)).min(b.len() - o);
                                b.drain(o..o + n);
                            }
                            1 => {
                                for _ in 0..1 + u.below(3) {
                                    b.insert(o, b"SxA/z-9"[u.below(7)]);
                                }
                            }
                            _ => {
                                if b[o].is_ascii_alphabetic() {
                                    b[o] ^= 0x20;
                                }
                            }
                        }
                    }
                    b
                }
                0 => gen::message(u, kind_of(kind, pentry), profile).0,
                1 => {
                    let k = u.below(pbuf.len() + 1);
                    pbuf[..k].to_vec()
                }
                2 => pbuf.clone(),
                3 => match pentry.kind() {
                    Kind::Request => b"GET /first HTTP/1.0\r\nA: b\r\nC: d\r\nE: f\r\n\r\n".to_vec(),
                    _ => b"HTTP/1.0 404 Not Found\r\nA: b\r\nC: d\r\nE: f\r\n\r\n".to_vec(),
                },
                _ => {
                    // a slice of the same allocation with a different start and/or end
                    kind = 1;
                    a = (p0 + u.below(8)).saturating_sub(u.below(8).min(p0));
                    b = if u.chance(128) { alen } else { alen - u.below(alen.min(24) + 1) };
                    a = a.min(b);
                    vec![]
                }
            }
        };
        let mut cfg = pick_cfg(u);
        let e = if readme_loop { pentry } else { *u.pick(es) };
        if !e.takes_cfg() {
            cfg = 0;
        }
        if readme_loop {
            cfg = pcfg;
        }
        aux.extend_from_slice(&[e as u64, cfg as u64, pick_cap(u, 3) as u64, kind, a as u64, b as u64]);
        bufs.push(buf);
    }
    aux.push(pick_cap(u, nlines + 1) as u64);
    bufs.push(before);
    bufs.push(after);
    let mut rec = CaseRec::new("history", pentry, pcfg, cap0, pbuf);
    rec.aux = aux;
    rec.bufs = bufs;
    rec
}

pub const REQS: [&[u8]; 8] = [
    b"GET /a HTTP/1.1\r\nA: b\r\nC: d\r\n\r\n", b"POST /bb HTTP/1.0\n\n", b"GET /a HTTP/1.1\r\nA: b", b"GET /a HT", b"GET",
    b"GET /\xff HTTP/1.1\r\n\r\n", b"PUT /c HTTP/1.1\r\nA: b\r\nbad\r\n\r\n", b"\r\nGET /d HTTP/1.1\r\nE: f\r\n\r\n",
];
pub const RESPS: [&[u8]; 8] = [
    b"HTTP/1.1 200 OK\r\nA: b\r\nC: d\r\n\r\n", b"HTTP/1.0 404\n\n", b"HTTP/1.1 200 OK\r\nA: b", b"HTTP/1.1 2", b"HTTP/1.1 200 Reason",
    b"HTTP/1.1 500 X\xffY\r\n\r\n", b"HTTP/1.1 301 Moved\r\nA: b\r\nbad\r\n\r\n", b"HTTP/1.1 204 \r\nE: f\r\n\r\n",
];

pub fn run(r: &Runner) {
    let p1 = Profile { truncate: 30, mutate: 48, ..Profile::DEFAULT };
    r.par_random(
        "histories of 1..4 earlier calls (G1 buffers, prefixes of the probe, README loop) then a probe, vs the probe on a fresh value",
        r.amount(6_000_000, 80_000_000),
        420,
        |u: &mut Choice| gen_history(u, &p1),
        &|ctx, l, rec| check(r, ctx, l, rec),
    );
    let p2 = Profile { truncate: 8, mutate: 8, ..Profile::CLEAN };
    r.par_random(
        "histories over mostly-valid messages (Complete-heavy)",
        r.amount(3_000_000, 40_000_000),
        420,
        |u: &mut Choice| gen_history(u, &p2),
        &|ctx, l, rec| check(r, ctx, l, rec),
    );
    // structured: every ordered pair (history message, probe message) from a fixed list × entry points
    // arrays whose length sits at a narrow-counter boundary, reused after a non-Complete call
    r.par_enum("capacities {255,256,257,65535,65536,65537,131072} × {request,response} × 4×4 entry points × 3 non-completing history messages, then a complete probe", 7 * 2 * 16 * 3, |ctx, l, idx| {
        let mut x = idx;
        let hm = (x % 3) as usize;
        x /= 3;
        let pe = (x % 4) as usize;
        x /= 4;
        let he = (x % 4) as usize;
        x /= 4;
        let kind = if x % 2 == 0 { Kind::Request } else { Kind::Response };
        let cap = [255usize, 256, 257, 65_535, 65_536, 65_537, 131_072][(x / 2) as usize];
        let msgs: &[&[u8]] = if kind == Kind::Request { &REQS } else { &RESPS };
        let es = entries_of(kind);
        // history: a Partial with headers, a Partial in the start line, an Err after a header
        let hist = [msgs[2], msgs[3], msgs[6]][hm];
        let mut rec = CaseRec::new("history", es[pe], 0, cap, msgs[0].to_vec());
        rec.bufs = vec![hist.to_vec(), vec![], vec![]];
        rec.aux = vec![es[he] as u64, 0, 4, 0, 0, 0, 4];
        check(r, ctx, l, &rec)
    });
    let total = 2 * 8 * 8 * 4 * 4 * 3;
    r.par_enum("every ordered pair (history message, probe message) of 8 requests / 8 responses × 4×4 entry points × capacities {0,2,8}", total, |ctx, l, idx| {
        let mut x = idx;
        let cap = [0usize, 2, 8][(x % 3) as usize];
        x /= 3;
        let pe = (x % 4) as usize;
        x /= 4;
        let he = (x % 4) as usize;
        x /= 4;
        let pi = (x % 8) as usize;
        x /= 8;
        let hi = (x % 8) as usize;
        x /= 8;
        let kind = if x == 0 { Kind::Request } else { Kind::Response };
        let msgs: &[&[u8]] = if kind == Kind::Request { &REQS } else { &RESPS };
        let es = entries_of(kind);
        let mut rec = CaseRec::new("history", es[pe], 0, cap, msgs[pi].to_vec());
        rec.bufs = vec![msgs[hi].to_vec(), vec![], vec![]];
        rec.aux = vec![es[he] as u64, 0, 4, 0, 0, 0, 4];
        check(r, ctx, l, &rec)
    });
}
