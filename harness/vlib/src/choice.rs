//! Choice-byte decoder. Every random decision of every generator is read from a byte
//! string. Exhausted input reads as 0 and 0 always selects the simplest alternative, so
//! shrinking the byte string (proptest) or mutating it (libFuzzer) moves through
//! *structured* cases monotonically.

pub struct Choice<'a> {
    data: &'a [u8],
    pos: usize,
}

impl<'a> Choice<'a> {
    pub fn new(data: &'a [u8]) -> Choice<'a> {
        Choice { data, pos: 0 }
    }

    pub fn remaining(&self) -> usize {
        self.data.len().saturating_sub(self.pos)
    }

    pub fn is_empty(&self) -> bool {
        self.pos >= self.data.len()
    }

    #[inline]
    pub fn byte(&mut self) -> u8 {
        let b = self.data.get(self.pos).copied().unwrap_or(0);
        self.pos += 1;
        b
    }

    /// Uniform-ish integer in 0..n (n >= 1), monotone in the consumed bytes
    /// (`i * n >> 8`, not `%`, so that lowering the byte lowers the result).
    #[inline]
    pub fn below(&mut self, n: usize) -> usize {
        debug_assert!(n >= 1);
        if n <= 1 {
            return 0;
        }
        if n <= 256 {
            (self.byte() as usize * n) >> 8
        } else {
            let v = ((self.byte() as usize) << 8) | self.byte() as usize;
            if n <= 65536 {
                (v * n) >> 16
            } else {
                let v = (v << 8) | self.byte() as usize;
                ((v as u128 * n as u128) >> 24) as usize
            }
        }
    }

    /// Integer in lo..=hi.
    #[inline]
    pub fn range(&mut self, lo: usize, hi: usize) -> usize {
        lo + self.below(hi - lo + 1)
    }

    /// true with probability num/256 (0 byte => false).
    #[inline]
    pub fn chance(&mut self, num: u32) -> bool {
        (self.byte() as u32) >= 256 - num.min(256) && num > 0
    }

    #[inline]
    pub fn pick<'b, T>(&mut self, xs: &'b [T]) -> &'b T {
        &xs[self.below(xs.len())]
    }

    #[inline]
    pub fn pick_bytes<'b>(&mut self, xs: &[&'b [u8]]) -> &'b [u8] {
        xs[self.below(xs.len())]
    }

    /// Weighted choice: returns the index of the selected weight. Index 0 is the
    /// "simplest" alternative (selected by a 0 byte).
    pub fn weighted(&mut self, weights: &[u32]) -> usize {
        let total: u32 = weights.iter().sum();
        let mut x = (self.byte() as u32 * total) >> 8;
        for (i, w) in weights.iter().enumerate() {
            if x < *w {
                return i;
            }
            x -= *w;
        }
        weights.len() - 1
    }
}
