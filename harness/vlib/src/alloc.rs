//! Counting allocator for C19: counts allocator calls made on a thread while that
//! thread's ARMED flag is set (exactly around the parser call).

use std::alloc::{GlobalAlloc, Layout, System};
use std::cell::Cell;

thread_local! {
    pub static ARMED: Cell<bool> = const { Cell::new(false) };
    pub static CALLS: Cell<u64> = const { Cell::new(0) };
}

pub struct CountingAlloc;

#[inline(always)]
fn note() {
    // try_with: TLS may be gone during thread teardown
    let _ = ARMED.try_with(|a| {
        if a.get() {
            let _ = CALLS.try_with(|c| c.set(c.get() + 1));
        }
    });
}

unsafe impl GlobalAlloc for CountingAlloc {
    unsafe fn alloc(&self, l: Layout) -> *mut u8 {
        note();
        System.alloc(l)
    }
    unsafe fn dealloc(&self, p: *mut u8, l: Layout) {
        note();
        System.dealloc(p, l)
    }
    unsafe fn alloc_zeroed(&self, l: Layout) -> *mut u8 {
        note();
        System.alloc_zeroed(l)
    }
    unsafe fn realloc(&self, p: *mut u8, l: Layout, n: usize) -> *mut u8 {
        note();
        System.realloc(p, l, n)
    }
}

/// Run `f` with the allocator armed; returns (result, allocator calls during f).
#[inline(always)]
pub fn armed<T>(f: impl FnOnce() -> T) -> (T, u64) {
    let before = CALLS.with(|c| c.get());
    ARMED.with(|a| a.set(true));
    let r = f();
    ARMED.with(|a| a.set(false));
    (r, CALLS.with(|c| c.get()) - before)
}

/// Is the counting allocator actually installed in this binary? (self-test)
pub fn installed() -> bool {
    let (_, n) = armed(|| {
        let v: Vec<u8> = Vec::with_capacity(64);
        std::hint::black_box(&v);
        drop(v);
    });
    n >= 1
}
