//! Bit-exact scalar emulation of the aarch64 NEON intrinsics used by httparse's
//! neon.rs (plus a margin of common ones), transcribed from the Arm reference.
//! Little-endian lane order, as on aarch64-linux.
#![allow(non_camel_case_types, clippy::missing_safety_doc)]

#[derive(Clone, Copy, Debug, PartialEq, Eq)]
pub struct uint8x16_t(pub [u8; 16]);
#[derive(Clone, Copy, Debug, PartialEq, Eq)]
pub struct uint8x8_t(pub [u8; 8]);
#[derive(Clone, Copy, Debug, PartialEq, Eq)]
pub struct uint16x8_t(pub [u16; 8]);
#[derive(Clone, Copy, Debug, PartialEq, Eq)]
pub struct uint64x2_t(pub [u64; 2]);
#[derive(Clone, Copy, Debug, PartialEq, Eq)]
pub struct uint64x1_t(pub [u64; 1]);

#[inline(always)]
fn map1(a: uint8x16_t, f: impl Fn(u8) -> u8) -> uint8x16_t {
    let mut r = [0u8; 16];
    for i in 0..16 {
        r[i] = f(a.0[i]);
    }
    uint8x16_t(r)
}
#[inline(always)]
fn map2(a: uint8x16_t, b: uint8x16_t, f: impl Fn(u8, u8) -> u8) -> uint8x16_t {
    let mut r = [0u8; 16];
    for i in 0..16 {
        r[i] = f(a.0[i], b.0[i]);
    }
    uint8x16_t(r)
}
#[inline(always)]
fn mask(c: bool) -> u8 {
    if c { 0xFF } else { 0 }
}

#[inline(always)]
pub unsafe fn vld1q_u8(p: *const u8) -> uint8x16_t {
    // a real 16-byte load: faults if it crosses into an unmapped page
    uint8x16_t(core::ptr::read_unaligned(p as *const [u8; 16]))
}
#[inline(always)]
pub unsafe fn vdupq_n_u8(v: u8) -> uint8x16_t {
    uint8x16_t([v; 16])
}
#[inline(always)]
pub unsafe fn vandq_u8(a: uint8x16_t, b: uint8x16_t) -> uint8x16_t {
    map2(a, b, |x, y| x & y)
}
#[inline(always)]
pub unsafe fn vorrq_u8(a: uint8x16_t, b: uint8x16_t) -> uint8x16_t {
    map2(a, b, |x, y| x | y)
}
#[inline(always)]
pub unsafe fn veorq_u8(a: uint8x16_t, b: uint8x16_t) -> uint8x16_t {
    map2(a, b, |x, y| x ^ y)
}
/// BIC: a AND NOT b
#[inline(always)]
pub unsafe fn vbicq_u8(a: uint8x16_t, b: uint8x16_t) -> uint8x16_t {
    map2(a, b, |x, y| x & !y)
}
#[inline(always)]
pub unsafe fn vmvnq_u8(a: uint8x16_t) -> uint8x16_t {
    map1(a, |x| !x)
}
#[inline(always)]
pub unsafe fn vceqq_u8(a: uint8x16_t, b: uint8x16_t) -> uint8x16_t {
    map2(a, b, |x, y| mask(x == y))
}
/// CMHS with swapped operands: a <= b (unsigned)
#[inline(always)]
pub unsafe fn vcleq_u8(a: uint8x16_t, b: uint8x16_t) -> uint8x16_t {
    map2(a, b, |x, y| mask(x <= y))
}
#[inline(always)]
pub unsafe fn vcltq_u8(a: uint8x16_t, b: uint8x16_t) -> uint8x16_t {
    map2(a, b, |x, y| mask(x < y))
}
#[inline(always)]
pub unsafe fn vcgeq_u8(a: uint8x16_t, b: uint8x16_t) -> uint8x16_t {
    map2(a, b, |x, y| mask(x >= y))
}
#[inline(always)]
pub unsafe fn vcgtq_u8(a: uint8x16_t, b: uint8x16_t) -> uint8x16_t {
    map2(a, b, |x, y| mask(x > y))
}
#[inline(always)]
pub unsafe fn vtstq_u8(a: uint8x16_t, b: uint8x16_t) -> uint8x16_t {
    map2(a, b, |x, y| mask(x & y != 0))
}
#[inline(always)]
pub unsafe fn vmaxq_u8(a: uint8x16_t, b: uint8x16_t) -> uint8x16_t {
    map2(a, b, |x, y| x.max(y))
}
#[inline(always)]
pub unsafe fn vminq_u8(a: uint8x16_t, b: uint8x16_t) -> uint8x16_t {
    map2(a, b, |x, y| x.min(y))
}
#[inline(always)]
pub unsafe fn vaddq_u8(a: uint8x16_t, b: uint8x16_t) -> uint8x16_t {
    map2(a, b, |x, y| x.wrapping_add(y))
}
#[inline(always)]
pub unsafe fn vsubq_u8(a: uint8x16_t, b: uint8x16_t) -> uint8x16_t {
    map2(a, b, |x, y| x.wrapping_sub(y))
}
#[inline(always)]
pub unsafe fn vqsubq_u8(a: uint8x16_t, b: uint8x16_t) -> uint8x16_t {
    map2(a, b, |x, y| x.saturating_sub(y))
}
#[inline(always)]
pub unsafe fn vshrq_n_u8<const N: i32>(a: uint8x16_t) -> uint8x16_t {
    // USHR #N, N in 1..=8; N == 8 gives 0
    map1(a, |x| if N >= 8 { 0 } else { x >> N })
}
#[inline(always)]
pub unsafe fn vshlq_n_u8<const N: i32>(a: uint8x16_t) -> uint8x16_t {
    map1(a, |x| if N >= 8 { 0 } else { x << N })
}
/// TBL (one register): indices >= 16 give 0
#[inline(always)]
pub unsafe fn vqtbl1q_u8(t: uint8x16_t, idx: uint8x16_t) -> uint8x16_t {
    map1(idx, |i| if (i as usize) < 16 { t.0[i as usize] } else { 0 })
}
#[inline(always)]
pub unsafe fn vmaxvq_u8(a: uint8x16_t) -> u8 {
    *a.0.iter().max().unwrap()
}
#[inline(always)]
pub unsafe fn vminvq_u8(a: uint8x16_t) -> u8 {
    *a.0.iter().min().unwrap()
}
#[inline(always)]
pub unsafe fn vreinterpretq_u64_u8(a: uint8x16_t) -> uint64x2_t {
    let lo = u64::from_le_bytes(a.0[0..8].try_into().unwrap());
    let hi = u64::from_le_bytes(a.0[8..16].try_into().unwrap());
    uint64x2_t([lo, hi])
}
#[inline(always)]
pub unsafe fn vreinterpretq_u8_u64(a: uint64x2_t) -> uint8x16_t {
    let mut r = [0u8; 16];
    r[0..8].copy_from_slice(&a.0[0].to_le_bytes());
    r[8..16].copy_from_slice(&a.0[1].to_le_bytes());
    uint8x16_t(r)
}
#[inline(always)]
pub unsafe fn vreinterpretq_u16_u8(a: uint8x16_t) -> uint16x8_t {
    let mut r = [0u16; 8];
    for i in 0..8 {
        r[i] = u16::from_le_bytes([a.0[2 * i], a.0[2 * i + 1]]);
    }
    uint16x8_t(r)
}
#[inline(always)]
pub unsafe fn vgetq_lane_u64<const L: i32>(a: uint64x2_t) -> u64 {
    a.0[L as usize]
}
/// SHRN: shift each 16-bit lane right by N and narrow to 8 bits
#[inline(always)]
pub unsafe fn vshrn_n_u16<const N: i32>(a: uint16x8_t) -> uint8x8_t {
    let mut r = [0u8; 8];
    for i in 0..8 {
        r[i] = (a.0[i] >> N) as u8;
    }
    uint8x8_t(r)
}
#[inline(always)]
pub unsafe fn vreinterpret_u64_u8(a: uint8x8_t) -> uint64x1_t {
    uint64x1_t([u64::from_le_bytes(a.0)])
}
#[inline(always)]
pub unsafe fn vget_lane_u64<const L: i32>(a: uint64x1_t) -> u64 {
    a.0[L as usize]
}
