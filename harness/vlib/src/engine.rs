//! Drivers: parallel bounded-exhaustive enumeration, proptest-driven random search with
//! shrinking, case records (replay files), statistics / evidence, known findings.

use crate::arena::Placement;
use crate::real::{Ctx, Entry, Kind};
use proptest::strategy::{Strategy, ValueTree};
use proptest::test_runner::{Config, RngAlgorithm, RngSeed, TestCaseError, TestError, TestRng, TestRunner};
use serde_json::{json, Value};
use std::borrow::Cow;
use std::collections::BTreeMap;
use std::sync::atomic::{AtomicBool, AtomicU64, Ordering};
use std::sync::Mutex;
use std::time::Instant;

// ---------------------------------------------------------------------------------
// case records
// ---------------------------------------------------------------------------------

#[derive(Clone, Debug)]
pub struct CaseRec {
    /// which sub-check of the property this case belongs to
    pub sub: Cow<'static, str>,
    pub entry: Entry,
    pub cfg: u8,
    pub cap: usize,
    pub place: Placement,
    /// runtime backend cell value in force (0 = detect)
    pub backend: u8,
    pub buf: Vec<u8>,
    /// numeric extras (split points, second config, alignment, ...), meaning per sub-check
    pub aux: Vec<u64>,
    /// extra buffers (histories, partner inputs)
    pub bufs: Vec<Vec<u8>>,
}

impl CaseRec {
    pub fn new(sub: &'static str, entry: Entry, cfg: u8, cap: usize, buf: Vec<u8>) -> CaseRec {
        CaseRec {
            sub: Cow::Borrowed(sub),
            entry,
            cfg,
            cap,
            place: Placement::End,
            backend: 0,
            buf,
            aux: vec![],
            bufs: vec![],
        }
    }
    pub fn kind(&self) -> Kind {
        self.entry.kind()
    }
    pub fn to_json(&self) -> Value {
        json!({
            "sub": self.sub,
            "entry": self.entry as u8,
            "entry_name": self.entry.name(),
            "cfg_bits": self.cfg,
            "cfg_options": cfg_names(self.cfg),
            "capacity": self.cap,
            "placement": self.place.code(),
            "backend": self.backend,
            "buffer_hex": hex(&self.buf),
            "buffer_text": show_bytes(&self.buf, 400),
            "aux": self.aux,
            "bufs_hex": self.bufs.iter().map(|b| hex(b)).collect::<Vec<_>>(),
        })
    }
    pub fn from_json(v: &Value) -> Option<CaseRec> {
        Some(CaseRec {
            sub: Cow::Owned(v.get("sub")?.as_str()?.to_string()),
            entry: Entry::from_u8(v.get("entry")?.as_u64()? as u8),
            cfg: v.get("cfg_bits")?.as_u64()? as u8,
            cap: v.get("capacity")?.as_u64()? as usize,
            place: Placement::from_code(v.get("placement")?.as_u64()? as u8),
            backend: v.get("backend")?.as_u64()? as u8,
            buf: unhex(v.get("buffer_hex")?.as_str()?)?,
            aux: v.get("aux")?.as_array()?.iter().filter_map(|x| x.as_u64()).collect(),
            bufs: v
                .get("bufs_hex")?
                .as_array()?
                .iter()
                .filter_map(|x| x.as_str().and_then(unhex))
                .collect(),
        })
    }
    /// short description used in evidence samples
    pub fn sample(&self, note: &str) -> Value {
        json!({
            "sub": self.sub,
            "entry": self.entry.name(),
            "cfg_bits": self.cfg,
            "capacity": self.cap,
            "buffer": show_bytes(&self.buf, 160),
            "aux": self.aux,
            "note": note,
        })
    }
}

pub fn cfg_names(bits: u8) -> Vec<&'static str> {
    (0..7).filter(|i| bits & (1 << i) != 0).map(|i| crate::real::CFG_BIT_NAMES[i]).collect()
}

pub fn hex(b: &[u8]) -> String {
    let mut s = String::with_capacity(b.len() * 2);
    for x in b {
        s.push_str(&format!("{:02x}", x));
    }
    s
}

pub fn unhex(s: &str) -> Option<Vec<u8>> {
    if s.len() % 2 != 0 {
        return None;
    }
    (0..s.len() / 2).map(|i| u8::from_str_radix(&s[2 * i..2 * i + 2], 16).ok()).collect()
}

pub fn show_bytes(b: &[u8], max: usize) -> String {
    let mut s = String::new();
    for &c in b.iter().take(max) {
        match c {
            b'\r' => s.push_str("\\r"),
            b'\n' => s.push_str("\\n"),
            b'\t' => s.push_str("\\t"),
            b'\\' => s.push_str("\\\\"),
            0x20..=0x7e => s.push(c as char),
            _ => s.push_str(&format!("\\x{:02x}", c)),
        }
    }
    if b.len() > max {
        s.push_str(&format!("...(+{} bytes)", b.len() - max));
    }
    s
}

#[derive(Clone, Debug)]
pub struct Violation {
    /// stable signature computed from the oracle's reason (not from the input bytes)
    pub sig: String,
    pub detail: String,
    pub rec: CaseRec,
}

impl Violation {
    pub fn new(sig: impl Into<String>, detail: impl Into<String>, rec: &CaseRec) -> Violation {
        let mut rec = rec.clone();
        if rec.backend == 0 {
            // a backend forced for the whole pass (hook H2) is part of the case
            rec.backend = crate::real::BACKEND.load(Ordering::Relaxed);
        }
        Violation { sig: sig.into(), detail: detail.into(), rec }
    }
}

/// coarse global progress counter (bumped every 256 accounted cases per thread) for the
/// stall monitor of C01/C20
pub static PROGRESS: AtomicU64 = AtomicU64::new(0);

/// number of threads currently waiting for a child process (compiler, cargo, a vdigest
/// variant): the stall monitor does not count that time as "no case finishes"
pub static EXTERNAL: std::sync::atomic::AtomicUsize = std::sync::atomic::AtomicUsize::new(0);

/// Make a child process die with the thread that spawned it (Linux PR_SET_PDEATHSIG), so
/// that a worker which exits on a stall or is killed by the supervisor leaves no runaway
/// valgrind / vdigest behind.
pub fn die_with_parent(cmd: &mut std::process::Command) -> &mut std::process::Command {
    use std::os::unix::process::CommandExt;
    unsafe {
        cmd.pre_exec(|| {
            libc::prctl(libc::PR_SET_PDEATHSIG, libc::SIGKILL as libc::c_ulong);
            Ok(())
        });
    }
    cmd
}

/// `cmd.output()` with the stall monitor told that this thread waits for a child process
pub fn run_external(cmd: &mut std::process::Command) -> std::io::Result<std::process::Output> {
    EXTERNAL.fetch_add(1, Ordering::SeqCst);
    let out = die_with_parent(cmd).output();
    EXTERNAL.fetch_sub(1, Ordering::SeqCst);
    PROGRESS.fetch_add(1, Ordering::Relaxed);
    out
}

pub type Check<'a> = dyn Fn(&mut Ctx, &mut Local, &CaseRec) -> Result<(), Violation> + Sync + 'a;

// ---------------------------------------------------------------------------------
// statistics
// ---------------------------------------------------------------------------------

/// Shared bitmap for conservative distinct counting: distinct = number of bits that went
/// 0 -> 1 (collisions only ever lower the count).
pub struct Distinct {
    bits: Vec<AtomicU64>,
    mask: u64,
    pub count: AtomicU64,
}

impl Distinct {
    pub fn new(log2_bits: u32) -> Distinct {
        let words = 1usize << (log2_bits - 6);
        let mut bits = Vec::with_capacity(words);
        bits.resize_with(words, || AtomicU64::new(0));
        Distinct { bits, mask: (1u64 << log2_bits) - 1, count: AtomicU64::new(0) }
    }
    #[inline]
    pub fn insert(&self, h: u64) -> bool {
        let idx = h & self.mask;
        let w = (idx >> 6) as usize;
        let bit = 1u64 << (idx & 63);
        let old = self.bits[w].fetch_or(bit, Ordering::Relaxed);
        old & bit == 0
    }
}

#[inline]
pub fn fnv(data: &[u8], mut h: u64) -> u64 {
    for &b in data {
        h ^= b as u64;
        h = h.wrapping_mul(0x100000001b3);
    }
    h
}

#[inline]
pub fn mix(mut x: u64) -> u64 {
    x ^= x >> 33;
    x = x.wrapping_mul(0xff51afd7ed558ccd);
    x ^= x >> 33;
    x = x.wrapping_mul(0xc4ceb9fe1a85ec53);
    x ^= x >> 33;
    x
}

pub fn rec_hash(rec: &CaseRec) -> u64 {
    let mut h = 0xcbf29ce484222325u64;
    h = fnv(rec.sub.as_bytes(), h);
    h = fnv(&[rec.entry as u8, rec.cfg, rec.place.code(), rec.backend], h);
    h = fnv(&(rec.cap as u64).to_le_bytes(), h);
    h = fnv(&rec.buf, h);
    for a in &rec.aux {
        h = fnv(&a.to_le_bytes(), h);
    }
    for b in &rec.bufs {
        h = fnv(b, h);
        h = fnv(&[0xff], h);
    }
    mix(h)
}

/// Per-thread statistics, merged into `Stats` when a phase ends.
#[derive(Default)]
pub struct Local {
    pub evals: u64,
    pub nontrivial: u64,
    pub distinct_nontrivial: u64,
    pub hist: BTreeMap<&'static str, u64>,
    pub samples: Vec<Value>,
    pub sample_budget: usize,
    pub counting: bool,
    pub maxima: BTreeMap<&'static str, f64>,
    pub excluded: u64,
}

impl Local {
    #[inline]
    pub fn bump(&mut self, key: &'static str) {
        if self.counting {
            *self.hist.entry(key).or_insert(0) += 1;
        }
    }
    #[inline]
    pub fn add(&mut self, key: &'static str, n: u64) {
        if self.counting {
            *self.hist.entry(key).or_insert(0) += n;
        }
    }
    pub fn max(&mut self, key: &'static str, v: f64) {
        if self.counting {
            let e = self.maxima.entry(key).or_insert(f64::MIN);
            if v > *e {
                *e = v;
            }
        }
    }
}

pub struct Stats {
    pub evals: AtomicU64,
    pub nontrivial: AtomicU64,
    pub distinct: Distinct,
    pub hist: Mutex<BTreeMap<String, u64>>,
    pub samples: Mutex<Vec<Value>>,
    pub maxima: Mutex<BTreeMap<String, f64>>,
    pub excluded: AtomicU64,
    pub phases: Mutex<Vec<Value>>,
}

// ---------------------------------------------------------------------------------
// known findings
// ---------------------------------------------------------------------------------

#[derive(Default, Clone)]
pub struct Known {
    /// (property, signature, text) of `open:` entries
    pub open: Vec<(String, String, String)>,
}

impl Known {
    pub fn load(path: &str) -> Known {
        let mut k = Known::default();
        if let Ok(s) = std::fs::read_to_string(path) {
            for line in s.lines() {
                let line = line.trim();
                if let Some(rest) = line.strip_prefix("open:") {
                    let mut prop = String::new();
                    let mut sig = String::new();
                    let mut text = vec![];
                    for w in rest.split_whitespace() {
                        if let Some(p) = w.strip_prefix("property=") {
                            prop = p.to_string();
                        } else if let Some(s) = w.strip_prefix("sig=") {
                            sig = s.to_string();
                        } else {
                            text.push(w);
                        }
                    }
                    if !prop.is_empty() && !sig.is_empty() {
                        k.open.push((prop, sig, text.join(" ")));
                    }
                }
            }
        }
        k
    }
    pub fn is_open(&self, prop: &str, sig: &str) -> bool {
        self.open.iter().any(|(p, s, _)| p == prop && s == sig)
    }
}

// ---------------------------------------------------------------------------------
// runner
// ---------------------------------------------------------------------------------

#[derive(Clone, Copy, PartialEq, Eq, Debug)]
pub enum Tier {
    Quick,
    Thorough,
}

pub struct Runner {
    pub prop: &'static str,
    pub tier: Tier,
    pub seed: u64,
    pub threads: usize,
    pub stats: Stats,
    pub stop: AtomicBool,
    pub violations: Mutex<Vec<Violation>>,
    pub known: Known,
    pub known_hits: Mutex<BTreeMap<String, (u64, String)>>,
    pub started: Instant,
    pub max_buf: usize,
    pub max_cap: usize,
    pub inconclusive: Mutex<Vec<String>>,
    pub inflight_base: (usize, usize), // (address, slot size) of the shared in-flight mapping
    pub notes: Mutex<Vec<String>>,
    pub exhaustive: AtomicBool,
    pub any_random: AtomicBool,
    /// > 1 during an alternate-backend pass: enumerations evaluate a 1/stride sample and
    /// random phases generate 1/stride of their cases
    pub stride: AtomicU64,
}

pub fn env_u64(name: &str, default: u64) -> u64 {
    std::env::var(name).ok().and_then(|s| s.trim().parse().ok()).unwrap_or(default)
}

impl Runner {
    pub fn new(prop: &'static str, tier: Tier, seed: u64) -> Runner {
        let threads = env_u64("VERIF_THREADS", 0) as usize;
        let threads = if cfg!(miri) {
            1
        } else if threads == 0 {
            std::thread::available_parallelism().map(|n| n.get()).unwrap_or(8).min(32)
        } else {
            threads
        };
        Runner {
            prop,
            tier,
            seed,
            threads,
            stats: Stats {
                evals: AtomicU64::new(0),
                nontrivial: AtomicU64::new(0),
                distinct: Distinct::new(if cfg!(miri) { 12 } else if tier == Tier::Quick { 28 } else { 32 }),
                hist: Mutex::new(BTreeMap::new()),
                samples: Mutex::new(vec![]),
                maxima: Mutex::new(BTreeMap::new()),
                excluded: AtomicU64::new(0),
                phases: Mutex::new(vec![]),
            },
            stop: AtomicBool::new(false),
            violations: Mutex::new(vec![]),
            known: Known::load(&format!("{}/KNOWN_FINDINGS.txt", crate::verif_dir())),
            known_hits: Mutex::new(BTreeMap::new()),
            started: Instant::now(),
            max_buf: 1 << 16,
            max_cap: 1024,
            inconclusive: Mutex::new(vec![]),
            inflight_base: (0, 0),
            notes: Mutex::new(vec![]),
            exhaustive: AtomicBool::new(true),
            any_random: AtomicBool::new(false),
            stride: AtomicU64::new(1),
        }
    }

    pub fn quick(&self) -> bool {
        self.tier == Tier::Quick
    }

    /// pick a work amount by tier
    pub fn amount(&self, quick: u64, thorough: u64) -> u64 {
        let scale = env_u64("VERIF_SCALE_PCT", 100);
        let base = if self.quick() { quick } else { thorough };
        (base * scale / 100 / self.stride.load(Ordering::Relaxed).max(1)).max(1)
    }

    /// true while an alternate-backend pass (a subsampled re-run under a forced backend) runs
    pub fn alt_pass(&self) -> bool {
        self.stride.load(Ordering::Relaxed) > 1
    }

    pub fn stopped(&self) -> bool {
        self.stop.load(Ordering::Relaxed)
    }

    fn new_ctx(&self, tid: usize) -> Ctx {
        if self.inflight_base.0 != 0 {
            let p = (self.inflight_base.0 + tid * self.inflight_base.1) as *mut u8;
            crate::real::INFLIGHT.with(|c| c.set((p, self.inflight_base.1)));
        }
        Ctx::new(self.max_buf, self.max_cap)
    }

    fn new_local(&self) -> Local {
        Local { sample_budget: 2, counting: true, ..Local::default() }
    }

    fn merge(&self, l: Local) {
        self.stats.evals.fetch_add(l.evals, Ordering::Relaxed);
        self.stats.nontrivial.fetch_add(l.nontrivial, Ordering::Relaxed);
        self.stats.excluded.fetch_add(l.excluded, Ordering::Relaxed);
        let mut h = self.stats.hist.lock().unwrap();
        for (k, v) in l.hist {
            *h.entry(k.to_string()).or_insert(0) += v;
        }
        drop(h);
        let mut m = self.stats.maxima.lock().unwrap();
        for (k, v) in l.maxima {
            let e = m.entry(k.to_string()).or_insert(f64::MIN);
            if v > *e {
                *e = v;
            }
        }
        drop(m);
        let mut s = self.stats.samples.lock().unwrap();
        for v in l.samples {
            if s.len() < 24 {
                s.push(v);
            }
        }
    }

    /// Record one evaluated case. `nontrivial` by the property's stated rule.
    #[inline]
    pub fn account(&self, l: &mut Local, rec: &CaseRec, nontrivial: bool, note: &str) {
        if !l.counting {
            return;
        }
        l.evals += 1;
        if l.evals & 255 == 0 || rec.buf.len() >= 2048 {
            // (big cases are slow: let each of them count as progress for the stall monitor)
            PROGRESS.fetch_add(1, Ordering::Relaxed);
        }
        if nontrivial {
            l.nontrivial += 1;
            if self.stats.distinct.insert(rec_hash(rec)) {
                l.distinct_nontrivial += 1;
                self.stats.distinct.count.fetch_add(1, Ordering::Relaxed);
                if l.sample_budget > 0 && (l.distinct_nontrivial % 97 == 1) {
                    l.sample_budget -= 1;
                    l.samples.push(rec.sample(note));
                }
            }
        }
    }

    /// Handle a violation: known finding → counted, search continues; otherwise
    /// recorded and the run is stopped. Returns true if it is a *new* violation.
    pub fn report(&self, v: Violation) -> bool {
        if self.known.is_open(self.prop, &v.sig) {
            let mut k = self.known_hits.lock().unwrap();
            let e = k.entry(v.sig.clone()).or_insert((0, v.detail.clone()));
            e.0 += 1;
            return false;
        }
        let mut vs = self.violations.lock().unwrap();
        if !vs.iter().any(|x| x.sig == v.sig) && vs.len() < 8 {
            vs.push(v);
        }
        // stop after the first new violation: a broken tree ends the run quickly
        self.stop.store(true, Ordering::Relaxed);
        true
    }

    pub fn is_known(&self, sig: &str) -> bool {
        self.known.is_open(self.prop, sig)
    }

    pub fn note(&self, s: String) {
        self.notes.lock().unwrap().push(s);
    }

    pub fn phase_done(&self, name: &str, cases: u64, exhaustive: bool, t0: Instant) {
        let stride = self.stride.load(Ordering::Relaxed);
        let name = if stride > 1 {
            if crate::real::has_runtime_dispatch() {
                format!("[backend {} forced, 1/{} sample] {}", crate::real::backend_name(crate::real::BACKEND.load(Ordering::Relaxed)), stride, name)
            } else {
                format!("[SIMD disabled at build time, 1/{} sample] {}", stride, name)
            }
        } else {
            name.to_string()
        };
        let exhaustive = exhaustive && stride == 1;
        self.stats.phases.lock().unwrap().push(json!({
            "phase": name, "cases": cases, "exhaustive": exhaustive,
            "wall_s": (t0.elapsed().as_millis() as f64) / 1000.0,
        }));
    }

    /// Bounded-exhaustive / deterministic enumeration of `total` cases in parallel.
    /// `f(ctx, local, index)`; must call `account` itself. Violations are shrunk by the
    /// case-level shrinker with `check`.
    pub fn par_enum<F>(&self, name: &str, total: u64, f: F)
    where
        F: Fn(&mut Ctx, &mut Local, u64) -> Result<(), Violation> + Sync,
    {
        let t0 = Instant::now();
        if self.stopped() {
            return;
        }
        if cfg!(miri) {
            // under the interpreter: a strided sample of the enumeration, single-threaded
            let n = env_u64("VERIF_MIRI_PER_PHASE", 150).min(total);
            let mut ctx = self.new_ctx(0);
            let mut local = self.new_local();
            for k in 0..n {
                let idx = (k as u128 * total as u128 / n as u128) as u64;
                if let Err(v) = f(&mut ctx, &mut local, idx) {
                    if self.report(v) {
                        break;
                    }
                }
            }
            self.merge(local);
            self.phase_done(name, n, false, t0);
            return;
        }
        let next = AtomicU64::new(0);
        let stride = self.stride.load(Ordering::Relaxed);
        let chunk = (total / (self.threads as u64 * 64)).clamp(1, 4096);
        std::thread::scope(|s| {
            for tid in 0..self.threads {
                let next = &next;
                let f = &f;
                s.spawn(move || {
                    let mut ctx = self.new_ctx(tid);
                    let mut local = self.new_local();
                    'outer: loop {
                        if self.stopped() {
                            break;
                        }
                        let lo = next.fetch_add(chunk, Ordering::Relaxed);
                        if lo >= total {
                            break;
                        }
                        let hi = (lo + chunk).min(total);
                        for idx in lo..hi {
                            if stride > 1 && mix(idx ^ 0xa17b_ac4e) % stride != 0 {
                                continue;
                            }
                            if let Err(v) = f(&mut ctx, &mut local, idx) {
                                if self.report(v) {
                                    break 'outer;
                                }
                            }
                        }
                    }
                    self.merge(local);
                });
            }
        });
        self.phase_done(name, total / stride, true, t0);
    }

    /// Random search driven by proptest: choice bytes are generated (and shrunk) by
    /// proptest, `decode` turns them into a case record, `check` judges it.
    pub fn par_random<D>(&self, name: &str, cases: u64, max_choice: usize, decode: D, check: &Check<'_>)
    where
        D: Fn(&mut crate::choice::Choice<'_>) -> CaseRec + Sync,
    {
        let t0 = Instant::now();
        if self.stopped() {
            return;
        }
        self.any_random.store(true, Ordering::Relaxed);
        self.exhaustive.store(false, Ordering::Relaxed);
        let cases = if cfg!(miri) { cases.min(env_u64("VERIF_MIRI_PER_PHASE", 150)) } else { cases };
        let batches: u64 = if cfg!(miri) { 1 } else { 256.min(cases.max(1)) };
        let per_batch = (cases + batches - 1) / batches;
        let next = AtomicU64::new(0);
        let name_h = fnv(name.as_bytes(), 0x1234567);
        std::thread::scope(|s| {
            for tid in 0..self.threads {
                let next = &next;
                let decode = &decode;
                s.spawn(move || {
                    let mut ctx = self.new_ctx(tid);
                    let mut local = self.new_local();
                    loop {
                        if self.stopped() {
                            break;
                        }
                        let b = next.fetch_add(1, Ordering::Relaxed);
                        if b >= batches {
                            break;
                        }
                        let seed = mix(self.seed ^ mix(name_h ^ mix(b + 1)));
                        let mut seed_bytes = [0u8; 32];
                        for i in 0..4 {
                            seed_bytes[i * 8..i * 8 + 8]
                                .copy_from_slice(&mix(seed.wrapping_add(i as u64)).to_le_bytes());
                        }
                        let config = Config {
                            cases: per_batch as u32,
                            failure_persistence: None,
                            rng_seed: RngSeed::Fixed(seed),
                            max_shrink_iters: 4096,
                            max_global_rejects: 0,
                            ..Config::default()
                        };
                        let rng = TestRng::from_seed(RngAlgorithm::ChaCha, &seed_bytes);
                        let mut runner = TestRunner::new_with_rng(config, rng);
                        let strat = proptest::collection::vec(proptest::num::u8::ANY, 0..=max_choice);
                        let failed = std::cell::Cell::new(false);
                        let ctx_cell = std::cell::RefCell::new((&mut ctx, &mut local));
                        let res = runner.run(&strat, |bytes| {
                            let mut g = ctx_cell.borrow_mut();
                            let (ctx, local) = &mut *g;
                            if self.stopped() && !failed.get() {
                                // another thread found something: finish quickly
                                return Ok(());
                            }
                            local.counting = !failed.get();
                            let mut ch = crate::choice::Choice::new(&bytes);
                            let rec = decode(&mut ch);
                            match check(ctx, local, &rec) {
                                Ok(()) => Ok(()),
                                Err(v) => {
                                    if self.is_known(&v.sig) {
                                        if !failed.get() {
                                            self.report(v);
                                        }
                                        local.excluded += 1;
                                        Ok(())
                                    } else {
                                        failed.set(true);
                                        Err(TestCaseError::fail(v.sig))
                                    }
                                }
                            }
                        });
                        drop(ctx_cell);
                        local.counting = true;
                        if let Err(e) = res {
                            match e {
                                TestError::Fail(_, bytes) => {
                                    let mut ch = crate::choice::Choice::new(&bytes);
                                    let rec = decode(&mut ch);
                                    local.counting = false;
                                    let r = check(&mut ctx, &mut local, &rec);
                                    local.counting = true;
                                    match r {
                                        Err(v) => {
                                            self.report(v);
                                        }
                                        Ok(()) => {
                                            self.inconclusive.lock().unwrap().push(format!(
                                                "phase {}: shrunk failure did not reproduce (flaky oracle?)",
                                                name
                                            ));
                                        }
                                    }
                                    break;
                                }
                                TestError::Abort(r) => {
                                    self.inconclusive
                                        .lock()
                                        .unwrap()
                                        .push(format!("phase {}: proptest aborted: {}", name, r));
                                    break;
                                }
                            }
                        }
                    }
                    self.merge(local);
                });
            }
        });
        self.phase_done(name, cases, false, t0);
    }

    /// Case-level shrinking: greedy reductions on the decoded case while a violation
    /// with the same signature persists.
    pub fn shrink(&self, v: Violation, check: &Check<'_>) -> Violation {
        let mut ctx = self.new_ctx(0);
        let mut local = Local::default();
        let mut best = v;
        // records that are not buffers judged in-process are not shrunk (programs,
        // build combinations) or only briefly (each attempt spawns processes)
        if matches!(&*best.rec.sub, "compile" | "lattice" | "build" | "race" | "variant-crash" | "crash" | "cachegrind" | "cachegrind-hang" | "memcheck-hang") {
            return best;
        }
        let mut budget = if &*best.rec.sub == "variant-pair" { 250usize } else if &*best.rec.sub == "memcheck" { 40usize } else { 3000usize };
        let same = |ctx: &mut Ctx, local: &mut Local, rec: &CaseRec, sig: &str| -> Option<Violation> {
            match check(ctx, local, rec) {
                Err(v2) if v2.sig == sig => Some(v2),
                _ => None,
            }
        };
        loop {
            let mut improved = false;
            // simpler parameters
            let mut cands: Vec<CaseRec> = vec![];
            if best.rec.place != Placement::End {
                let mut r = best.rec.clone();
                r.place = Placement::End;
                cands.push(r);
            }
            for bit in 0..7 {
                if best.rec.cfg & (1 << bit) != 0 {
                    let mut r = best.rec.clone();
                    r.cfg &= !(1 << bit);
                    cands.push(r);
                }
            }
            // buffer reductions: remove blocks
            let n = best.rec.buf.len();
            let mut sz = n / 2;
            while sz >= 1 {
                let mut start = 0;
                while start + sz <= n {
                    let mut r = best.rec.clone();
                    r.buf.drain(start..start + sz);
                    cands.push(r);
                    start += sz;
                }
                if cands.len() > 400 {
                    break;
                }
                sz /= 2;
            }
            for r in cands {
                if budget == 0 {
                    return best;
                }
                budget -= 1;
                if let Some(v2) = same(&mut ctx, &mut local, &r, &best.sig) {
                    best = v2;
                    improved = true;
                    break;
                }
            }
            if !improved {
                break;
            }
        }
        // canonicalise bytes: try replacing each byte by 'a'
        for i in 0..best.rec.buf.len().min(256) {
            if budget == 0 {
                break;
            }
            if best.rec.buf[i] != b'a' {
                budget -= 1;
                let mut r = best.rec.clone();
                r.buf[i] = b'a';
                if let Some(v2) = same(&mut ctx, &mut local, &r, &best.sig) {
                    best = v2;
                }
            }
        }
        best
    }
}

/// Deterministic pseudo-random bytes derived from choice bytes only (content fillers).
pub struct Lcg(pub u64);
impl Lcg {
    #[inline]
    pub fn next(&mut self) -> u32 {
        self.0 = self.0.wrapping_mul(6364136223846793005).wrapping_add(1442695040888963407);
        (self.0 >> 33) as u32
    }
    #[inline]
    pub fn below(&mut self, n: usize) -> usize {
        ((self.next() as u64 * n as u64) >> 31) as usize
    }
}

// keep the unused-import lints quiet for items used only by some configurations
#[allow(dead_code)]
fn _unused(_: &dyn Strategy<Value = u8, Tree = proptest::num::u8::BinarySearch>) {}
#[allow(dead_code)]
fn _unused2<T: ValueTree>(_: T) {}

// ---------------------------------------------------------------------------------
// replay files and evidence
// ---------------------------------------------------------------------------------

pub fn replay_json(prop: &str, sig: &str, detail: &str, rec: &CaseRec) -> String {
    let v = json!({
        "property": prop,
        "signature": sig,
        "detail": detail,
        "case": rec.to_json(),
    });
    serde_json::to_string_pretty(&v).unwrap() + "\n"
}

pub fn parse_replay(text: &str) -> Option<(CaseRec, String)> {
    let v: Value = serde_json::from_str(text).ok()?;
    let rec = CaseRec::from_json(v.get("case")?)?;
    let sig = v.get("signature").and_then(|s| s.as_str()).unwrap_or("").to_string();
    Some((rec, sig))
}

#[allow(clippy::too_many_arguments)]
pub fn evidence_json(
    prop: &str,
    tier: Tier,
    seed: u64,
    rule: &str,
    assumptions: &[&str],
    r: &Runner,
    profile: &str,
    wall_s: f64,
    nviol: usize,
    prev: Option<&str>,
) -> String {
    let mut evals = r.stats.evals.load(Ordering::Relaxed);
    let mut distinct = r.stats.distinct.count.load(Ordering::Relaxed);
    let mut nontrivial = r.stats.nontrivial.load(Ordering::Relaxed);
    let hist: BTreeMap<String, u64> = r.stats.hist.lock().unwrap().clone();
    let samples: Vec<Value> = r.stats.samples.lock().unwrap().clone();
    let maxima: BTreeMap<String, f64> = r.stats.maxima.lock().unwrap().clone();
    let phases: Vec<Value> = r.stats.phases.lock().unwrap().clone();
    let mut runs = vec![json!({
        "profile": profile,
        "evaluations": evals,
        "nontrivial": nontrivial,
        "distinct_nontrivial": distinct,
        "phases": phases,
        "histogram": hist,
        "maxima": maxima,
        "wall_s": wall_s,
    })];
    let mut wall = wall_s;
    let mut viol = nviol as u64;
    let mut all_samples = samples;
    if let Some(p) = prev.and_then(|p| serde_json::from_str::<Value>(p).ok()) {
        if p.get("property_id").and_then(|x| x.as_str()) == Some(prop) {
            let c = &p["coverage"];
            evals += c["evaluations"].as_u64().unwrap_or(0);
            nontrivial += c["nontrivial"].as_u64().unwrap_or(0);
            // the same inputs run under another build: distinct cases do not add up
            distinct = distinct.max(c["distinct_nontrivial"].as_u64().unwrap_or(0));
            if let Some(rs) = c["runs"].as_array() {
                let mut v = rs.clone();
                v.append(&mut runs);
                runs = v;
            }
            wall += p["wall_s"].as_f64().unwrap_or(0.0);
            viol += p["violations"].as_u64().unwrap_or(0);
            if let Some(s) = c["samples"].as_array() {
                for x in s.iter().take(8) {
                    all_samples.push(x.clone());
                }
            }
        }
    }
    let exhaustive = r.exhaustive.load(Ordering::Relaxed) && !r.any_random.load(Ordering::Relaxed);
    let notes: Vec<String> = r.notes.lock().unwrap().clone();
    let mut coverage = json!({
        "evaluations": evals,
        "nontrivial": nontrivial,
        "distinct_nontrivial": distinct,
        "rule": rule,
        "samples": all_samples,
        "runs": runs,
        "excluded_known_findings": r.stats.excluded.load(Ordering::Relaxed),
        "distinct_counting": "conservative: number of 0->1 transitions in a shared hash bitmap (collisions only lower the count)",
        "notes": notes,
    });
    if exhaustive {
        coverage["exhaustive"] = json!(true);
    } else {
        coverage["exhaustive_subspaces"] = json!("phases marked exhaustive:true enumerate their stated finite space completely; random phases do not");
    }
    let v = json!({
        "property_id": prop,
        "tier": if tier == Tier::Quick { "quick" } else { "thorough" },
        "seed": seed,
        "level": "exploration",
        "coverage": coverage,
        "assumptions": assumptions,
        "wall_s": wall,
        "violations": viol,
    });
    serde_json::to_string_pretty(&v).unwrap() + "\n"
}
