//! Guard-page arenas: the input buffer and the header array are placed so that they
//! abut `PROT_NONE` pages; any over-read / out-of-array write faults immediately.

use std::ptr;

pub const PAGE: usize = 4096;

#[derive(Clone, Copy, Debug, PartialEq, Eq, Hash)]
pub enum Placement {
    /// buffer ends exactly at the trailing guard page
    End,
    /// buffer starts exactly after the leading guard page
    Start,
    /// buffer starts `off` bytes (0..=63) after a 64-aligned interior address
    Interior(u8),
    /// buffer straddles an interior 4 KiB page boundary, which falls `cross_offset(k)` bytes
    /// after its start (k in 0..=189)
    Cross(u8),
}

/// distance from the buffer start to the page boundary for `Placement::Cross(k)`
pub fn cross_offset(k: u8) -> usize {
    let k = k.min(189) as usize;
    if k < 128 { k } else { 128 + (k - 128) * 16 }
}

impl Placement {
    pub fn code(self) -> u8 {
        match self {
            Placement::End => 0,
            Placement::Start => 1,
            Placement::Interior(o) => 2 + (o & 63),
            Placement::Cross(k) => 66 + k.min(189),
        }
    }
    pub fn from_code(c: u8) -> Placement {
        match c {
            0 => Placement::End,
            1 => Placement::Start,
            o if o < 66 => Placement::Interior((o - 2) & 63),
            o => Placement::Cross(o - 66),
        }
    }
}

pub struct Arena {
    base: *mut u8, // start of mapping (leading guard page)
    usable: usize, // bytes between the guards (multiple of PAGE)
}

unsafe impl Send for Arena {}

impl Arena {
    /// Under Miri there is no mmap/mprotect: the arena is a plain heap allocation (leaked),
    /// Miri itself tracks the bounds of every allocation. Buffers for the parser are then
    /// put into exact-size allocations anyway (`Ctx::heap_mode`).
    #[cfg(miri)]
    pub fn new(min_usable: usize) -> Arena {
        let usable = ((min_usable.max(1) + PAGE - 1) / PAGE + 1) * PAGE;
        let v: Vec<u64> = vec![0u64; (usable + 2 * PAGE) / 8];
        let base = Box::leak(v.into_boxed_slice()).as_mut_ptr() as *mut u8;
        Arena { base, usable }
    }

    #[cfg(not(miri))]
    pub fn new(min_usable: usize) -> Arena {
        let usable = ((min_usable.max(1) + PAGE - 1) / PAGE + 1) * PAGE;
        let total = usable + 2 * PAGE;
        unsafe {
            let p = libc::mmap(
                ptr::null_mut(),
                total,
                libc::PROT_NONE,
                libc::MAP_PRIVATE | libc::MAP_ANONYMOUS,
                -1,
                0,
            );
            assert!(p != libc::MAP_FAILED, "mmap failed");
            let base = p as *mut u8;
            let r = libc::mprotect(
                base.add(PAGE) as *mut _,
                usable,
                libc::PROT_READ | libc::PROT_WRITE,
            );
            assert_eq!(r, 0, "mprotect failed");
            Arena { base, usable }
        }
    }

    pub fn usable(&self) -> usize {
        self.usable
    }

    fn lo(&self) -> *mut u8 {
        unsafe { self.base.add(PAGE) }
    }
    fn hi(&self) -> *mut u8 {
        unsafe { self.base.add(PAGE + self.usable) }
    }

    /// Pointer at which a region of `len` bytes is placed.
    pub fn place_ptr(&self, len: usize, pl: Placement) -> *mut u8 {
        assert!(len + 128 <= self.usable, "arena too small: {} > {}", len, self.usable);
        unsafe {
            match pl {
                Placement::End => self.hi().sub(len),
                Placement::Start => self.lo(),
                Placement::Interior(o) => self.lo().add(64 + (o as usize & 63)),
                Placement::Cross(k) => {
                    if len + PAGE > self.usable {
                        self.hi().sub(len) // does not fit behind the first interior boundary
                    } else {
                        self.lo().add(PAGE - cross_offset(k).min(len))
                    }
                }
            }
        }
    }

    /// Copy `data` into the arena at the given placement and return the placed slice.
    /// The lifetime is tied to `&mut self`: one live placement at a time.
    pub fn place<'a>(&'a mut self, data: &[u8], pl: Placement) -> &'a [u8] {
        let p = self.place_ptr(data.len(), pl);
        unsafe {
            ptr::copy_nonoverlapping(data.as_ptr(), p, data.len());
            std::slice::from_raw_parts(p, data.len())
        }
    }

    /// Fill the whole usable area with a byte (used to make stale data recognisable).
    pub fn fill(&mut self, b: u8) {
        unsafe { ptr::write_bytes(self.lo(), b, self.usable) }
    }

    /// Raw region of `n * size` bytes abutting the end (or start) guard page, aligned
    /// to `align`. Used for header arrays.
    pub fn region(&mut self, bytes: usize, align: usize, at_end: bool) -> *mut u8 {
        assert!(bytes + 256 <= self.usable);
        unsafe {
            if at_end {
                let p = self.hi().sub(bytes);
                assert_eq!(p as usize % align, 0);
                p
            } else {
                self.lo()
            }
        }
    }
}

impl Drop for Arena {
    fn drop(&mut self) {
        #[cfg(not(miri))]
        unsafe {
            libc::munmap(self.base as *mut _, self.usable + 2 * PAGE);
        }
    }
}
