//! Entry points for the coverage-guided fuzz targets (/verif/fuzz): the fuzzer mutates
//! choice bytes, the same decoders as the proptest-driven checks turn them into
//! structured cases, and the same `check_*` functions judge them — the semantic oracle
//! is inside every target.

use crate::choice::Choice;
use crate::engine::{CaseRec, Local, Runner, Tier, Violation};
use crate::gen::Profile;
use crate::props::common::*;
use crate::props::{self, PropDef};
use crate::real::{Ctx, Kind};
use std::cell::RefCell;
use std::sync::OnceLock;

pub const TARGETS: [&str; 6] = ["fz_total", "fz_model", "fz_stream", "fz_frame", "fz_meta", "fz_chunk"];

/// which fuzz target exercises a property
pub fn target_of(prop: &str) -> Option<&'static str> {
    Some(match prop {
        "C01" => "fz_total",
        "C06" | "C07" | "C08" | "C10" | "C14" => "fz_model",
        "C02" | "C11" => "fz_stream",
        "C03" | "C04" | "C05" => "fz_frame",
        "C15" | "C16" | "C17" | "C18" => "fz_meta",
        "C09" => "fz_chunk",
        _ => return None,
    })
}

fn runner(id: &'static str) -> &'static Runner {
    static RS: OnceLock<Vec<(&'static str, Runner)>> = OnceLock::new();
    let v = RS.get_or_init(|| props::all().iter().map(|p| (p.id, Runner::new(p.id, Tier::Quick, 1))).collect());
    &v.iter().find(|(i, _)| *i == id).unwrap().1
}

fn prop(id: &str) -> &'static PropDef {
    static PS: OnceLock<Vec<PropDef>> = OnceLock::new();
    PS.get_or_init(props::all).iter().find(|p| p.id == id).unwrap()
}

thread_local! {
    static CTX: RefCell<(Ctx, Local)> = RefCell::new((Ctx::new(1 << 16, 1024), Local::default()));
}

static K_ALL: [Kind; 4] = ALL_KINDS;
static K_MSG: [Kind; 3] = MSG_KINDS;
static K_RR: [Kind; 2] = RR_KINDS;
static K_CHUNK: [Kind; 1] = [Kind::Chunk];

/// Decode the fuzzer's bytes into (property, case) pairs for a target.
pub fn decode(target: &str, data: &[u8]) -> Vec<(&'static str, CaseRec)> {
    let mut u = Choice::new(data);
    let sel = u.byte();
    // raw mode: the bytes after a 4-byte header are the buffer itself, so that the fuzzer's
    // comparison tracing can synthesise magic literals the grammar does not know
    if sel & 0x40 != 0 && target != "fz_meta" && data.len() >= 4 {
        let kinds: &[Kind] = match target {
            "fz_chunk" => &K_CHUNK,
            "fz_model" => &K_MSG,
            _ => &K_ALL,
        };
        let kind = kinds[(data[1] as usize) % kinds.len()];
        let mut cfg = data[2] & 0x7f;
        let entry = if cfg != 0 { crate::real::Entry::cfg_entry(kind) } else { entries_of(kind)[(data[1] as usize >> 4) % entries_of(kind).len()] };
        if !entry.takes_cfg() {
            cfg = 0;
        }
        let buf = data[4..].to_vec();
        let lines = buf.iter().filter(|&&c| c == b'\n').count();
        let cap = if data[3] & 1 == 0 { lines + 4 } else { (data[3] >> 1) as usize % 8 };
        let mk = |sub: &'static str| CaseRec::new(sub, entry, cfg, cap, buf.clone());
        let gen_cap = |sub: &'static str| CaseRec::new(sub, entry, cfg, lines + 8, buf.clone());
        return match target {
            "fz_total" => {
                let mut r = mk("total");
                r.aux = vec![1, 0];
                vec![("C01", r)]
            }
            "fz_model" => {
                let mut v = vec![("C10", mk("model"))];
                match kind {
                    Kind::Request => v.push(("C06", gen_cap("model"))),
                    Kind::Response => v.push(("C07", gen_cap("model"))),
                    _ => {}
                }
                if cfg == 0 {
                    v.push(("C08", gen_cap("model")));
                }
                if kind != Kind::Headers {
                    v.push(("C14", gen_cap("model")));
                }
                v
            }
            "fz_stream" => {
                let mut a = mk("prefix");
                a.buf.truncate(300);
                let mut b = a.clone();
                b.sub = std::borrow::Cow::Borrowed("partial-prefixes");
                vec![("C02", a), ("C11", b)]
            }
            "fz_frame" => {
                let mut v = vec![("C03", mk("frame"))];
                if kind != Kind::Chunk {
                    v.push(("C04", mk("zerocopy")));
                    v.push(("C05", mk("hygiene")));
                }
                v
            }
            _ => vec![("C09", mk("model"))],
        };
    }
    let lenient = sel & 0x80 != 0;
    let profile = if lenient { Profile::LENIENT } else { Profile { big: false, ..Profile::DEFAULT } };
    let g_all = GenSpec { kinds: &K_ALL, profile, generous_cap: false, cfg_mask: 0x7f, cfg_entry_only: false };
    let g_msg = GenSpec { kinds: &K_MSG, profile, generous_cap: false, cfg_mask: 0x7f, cfg_entry_only: false };
    let g_msg_gen = GenSpec { kinds: &K_MSG, profile, generous_cap: true, cfg_mask: 0x7f, cfg_entry_only: false };
    let g_rr = GenSpec { kinds: &K_RR, profile, generous_cap: false, cfg_mask: 0x7f, cfg_entry_only: true };
    let g_chunk = GenSpec { kinds: &K_CHUNK, profile, generous_cap: true, cfg_mask: 0, cfg_entry_only: false };
    match target {
        "fz_total" => {
            let mut rec = g1_case(&mut u, "total", &g_all);
            rec.aux = vec![(sel & 1) as u64, ((sel >> 1) & 1) as u64];
            vec![("C01", rec)]
        }
        "fz_model" => {
            let rec = g1_case(&mut u, "model", &g_msg_gen);
            let mut v = vec![];
            match rec.kind() {
                Kind::Request => v.push(("C06", rec.clone())),
                Kind::Response => v.push(("C07", rec.clone())),
                _ => {}
            }
            if rec.cfg == 0 {
                v.push(("C08", rec.clone()));
            }
            if rec.kind() != Kind::Headers {
                v.push(("C14", rec.clone()));
            }
            let mut r10 = g1_case(&mut Choice::new(&data[1.min(data.len())..]), "model", &g_msg);
            r10.sub = std::borrow::Cow::Borrowed("model");
            v.push(("C10", r10));
            v
        }
        "fz_stream" => {
            let mut rec = g1_case(&mut u, "prefix", &g_all);
            if rec.buf.len() > 300 {
                rec.buf.truncate(300);
            }
            let mut p = rec.clone();
            p.sub = std::borrow::Cow::Borrowed("partial-prefixes");
            vec![("C02", rec), ("C11", p)]
        }
        "fz_frame" => {
            let rec = g1_case(&mut u, "frame", &g_all);
            let mut v = vec![("C03", rec.clone())];
            if rec.kind() != Kind::Chunk {
                let mut z = rec.clone();
                z.sub = std::borrow::Cow::Borrowed("zerocopy");
                v.push(("C04", z));
                let mut h = rec.clone();
                h.sub = std::borrow::Cow::Borrowed("hygiene");
                v.push(("C05", h));
            }
            v
        }
        "fz_meta" => {
            let rec = g1_case(&mut u, "c16-same-kind", &g_rr);
            let mut v = vec![("C16", rec.clone())];
            let mut s = rec.clone();
            s.sub = std::borrow::Cow::Borrowed("storage");
            s.aux = vec![(sel & 1) as u64];
            v.push(("C17", s));
            let mut d = rec.clone();
            d.sub = std::borrow::Cow::Borrowed("c15-default-accepted");
            v.push(("C15", d));
            // history: the rest of the data drives a second message used as history
            let mut hrec = rec.clone();
            hrec.sub = std::borrow::Cow::Borrowed("history");
            let (hb, _) = crate::gen::message(&mut u, rec.kind(), &profile);
            let he = entries_of(rec.kind())[(sel as usize >> 2) % 4];
            hrec.bufs = vec![hb, vec![], vec![]];
            hrec.aux = vec![he as u64, if he.takes_cfg() { (sel & 0x7f) as u64 } else { 0 }, 4, 0, 0, 0, 4];
            v.push(("C18", hrec));
            v
        }
        _ => vec![("C09", g1_case(&mut u, "model", &g_chunk))],
    }
}

/// Run one fuzz input. Err((property, violation)) on the first violation.
pub fn fuzz_one(target: &str, data: &[u8], heap_mode: bool) -> Result<(), (&'static str, Violation)> {
    static ONLY: OnceLock<Option<String>> = OnceLock::new();
    let only = ONLY.get_or_init(|| std::env::var("VERIF_FUZZ_PROP").ok().filter(|s| !s.is_empty()));
    let mut cases = decode(target, data);
    if let Some(o) = only {
        cases.retain(|(id, _)| id == o);
    }
    CTX.with(|c| {
        let mut g = c.borrow_mut();
        let (ctx, local) = &mut *g;
        ctx.heap_mode = heap_mode;
        local.counting = false;
        for (id, rec) in cases {
            let p = prop(id);
            if let Err(v) = (p.check)(runner(id), ctx, local, &rec) {
                if !runner(id).is_known(&v.sig) {
                    return Err((id, v));
                }
            }
        }
        Ok(())
    })
}
