//! Model self-test: the expectations written down in the repository's own tests
//! (`src/lib.rs` test module, `tests/uri.rs`) are extracted from the test *source* at check
//! time and the reference model M is compared with them directly — not through the real
//! parser. This pins M to an authority that is independent of the code under test: a
//! misreading of a statement that M shares with the crate would have to be shared by the
//! authors' hand-written expectations as well.
//!
//! The extractor is a small statement scanner, not a Rust parser. It understands
//!   * `req! { name, b"...", [status,] |req| { asserts } }` / `res! { ... }`,
//!   * `#[test] fn` bodies built from `[EMPTY_HEADER; N]`, `Request::new`/`Response::new`,
//!     `ParserConfig::default().<option>(true)….parse_request(&mut v, BUF)`, `v.parse(BUF)`,
//!     `assert_eq!(result, …)`, `assert_eq!(v.field…, literal)`, and
//!   * `assert_eq!(parse_chunk_size(b"..."), …)`.
//! Anything it does not understand is skipped and counted; tests that compute their input
//! (`format!`, loops) are skipped as a whole.

use crate::gen::extract_literals;
use crate::model::{self, Verdict};
use crate::real::{ErrKind, Kind};
use std::collections::HashMap;

#[derive(Clone, Debug, PartialEq)]
pub enum ExpSt {
    Complete(usize),
    CompleteChunk(usize, u64),
    Partial,
    Err(ErrKind),
}

#[derive(Clone, Debug, Default)]
pub struct TExp {
    pub test: String,
    pub file: &'static str,
    pub kind: Option<Kind>,
    pub cfg: u8,
    pub cap: usize,
    pub buf: Vec<u8>,
    pub status: Option<ExpSt>,
    pub method: Option<Vec<u8>>,
    pub path: Option<Vec<u8>>,
    pub version: Option<u8>,
    pub code: Option<u16>,
    pub reason: Option<Vec<u8>>,
    pub n_headers: Option<usize>,
    pub headers: Vec<(usize, bool, Vec<u8>)>, // (index, is_name, bytes)
}

#[derive(Default, Debug, Clone)]
pub struct Extracted {
    pub cases: Vec<TExp>,
    pub assertions_used: usize,
    pub statements_skipped: usize,
    pub tests_seen: usize,
    pub tests_skipped_computed_input: usize,
}

const OPTS: [(&str, u8); 7] = [
    ("allow_spaces_after_header_name_in_responses", crate::real::C_SPACES_AFTER_NAME),
    ("allow_obsolete_multiline_headers_in_responses", crate::real::C_MULTILINE),
    ("allow_multiple_spaces_in_request_line_delimiters", crate::real::C_MULTISPACE_REQ),
    ("allow_multiple_spaces_in_response_status_delimiters", crate::real::C_MULTISPACE_RESP),
    ("allow_space_before_first_header_name", crate::real::C_SPACE_BEFORE_FIRST),
    ("ignore_invalid_headers_in_responses", crate::real::C_IGNORE_RESP),
    ("ignore_invalid_headers_in_requests", crate::real::C_IGNORE_REQ),
];

/// index just past the bracket matching the opener at `open` (string/char/comment aware)
fn matching(b: &[u8], open: usize) -> Option<usize> {
    let (o, c) = match b[open] {
        b'{' => (b'{', b'}'),
        b'(' => (b'(', b')'),
        b'[' => (b'[', b']'),
        _ => return None,
    };
    let mut depth = 0usize;
    let mut i = open;
    while i < b.len() {
        match b[i] {
            b'"' => i = skip_string(b, i),
            b'\'' => i = skip_char(b, i),
            b'/' if b.get(i + 1) == Some(&b'/') => {
                while i < b.len() && b[i] != b'\n' {
                    i += 1;
                }
            }
            x if x == o => {
                depth += 1;
                i += 1;
            }
            x if x == c => {
                depth -= 1;
                i += 1;
                if depth == 0 {
                    return Some(i);
                }
            }
            _ => i += 1,
        }
    }
    None
}

fn skip_string(b: &[u8], mut i: usize) -> usize {
    i += 1;
    while i < b.len() && b[i] != b'"' {
        if b[i] == b'\\' {
            i += 1;
        }
        i += 1;
    }
    i + 1
}

fn skip_char(b: &[u8], i: usize) -> usize {
    if b.get(i + 1) == Some(&b'\\') {
        let mut j = i + 2;
        while j < b.len() && b[j] != b'\'' {
            j += 1;
        }
        j + 1
    } else if b.get(i + 2) == Some(&b'\'') {
        i + 3
    } else {
        i + 1 // lifetime
    }
}

/// split on `;` outside strings, chars, comments and ( ) [ ] nesting
fn statements(s: &str) -> Vec<String> {
    let b = s.as_bytes();
    let mut out = vec![];
    let mut depth = 0i32;
    let mut start = 0;
    let mut i = 0;
    while i < b.len() {
        match b[i] {
            b'"' => i = skip_string(b, i),
            b'\'' => i = skip_char(b, i),
            b'/' if b.get(i + 1) == Some(&b'/') => {
                while i < b.len() && b[i] != b'\n' {
                    i += 1;
                }
            }
            b'(' | b'[' => {
                depth += 1;
                i += 1;
            }
            b')' | b']' => {
                depth -= 1;
                i += 1;
            }
            b';' if depth == 0 => {
                out.push(s[start..i].trim().to_string());
                i += 1;
                start = i;
            }
            _ => i += 1,
        }
    }
    let rest = s[start.min(s.len())..].trim();
    if !rest.is_empty() {
        out.push(rest.to_string());
    }
    out
}

fn ident_before(s: &str, pos: usize) -> &str {
    let b = s.as_bytes();
    let mut i = pos;
    while i > 0 && (b[i - 1].is_ascii_alphanumeric() || b[i - 1] == b'_') {
        i -= 1;
    }
    &s[i..pos]
}

fn ident_at(s: &str, pos: usize) -> &str {
    let b = s.as_bytes();
    let mut i = pos;
    while i < b.len() && (b[i].is_ascii_alphanumeric() || b[i] == b'_') {
        i += 1;
    }
    &s[pos..i]
}

fn first_number(s: &str) -> Option<u64> {
    let b = s.as_bytes();
    let mut i = 0;
    while i < b.len() && !b[i].is_ascii_digit() {
        i += 1;
    }
    let st = i;
    while i < b.len() && (b[i].is_ascii_digit() || b[i] == b'_') {
        i += 1;
    }
    s[st..i].replace('_', "").parse().ok()
}

fn err_kind(s: &str) -> Option<ErrKind> {
    for k in [
        ErrKind::HeaderName, ErrKind::HeaderValue, ErrKind::NewLine, ErrKind::Status, ErrKind::Token,
        ErrKind::TooManyHeaders, ErrKind::Version, ErrKind::InvalidChunkSize,
    ] {
        if let Some(p) = s.find(k.name()) {
            // whole identifier
            if ident_at(s, p) == k.name() {
                return Some(k);
            }
        }
    }
    None
}

fn parse_status(s: &str, consts: &HashMap<String, Vec<u8>>) -> Option<ExpSt> {
    let s = s.trim();
    if s.contains("Partial") {
        return Some(ExpSt::Partial);
    }
    if let Some(p) = s.find("Complete((") {
        let inner = &s[p + 10..];
        let mut it = inner.split(',');
        let a = first_number(it.next()?)?;
        let bq = it.next()?;
        // the size may be written in hex or with a type suffix
        let bq = bq.trim();
        let v = if let Some(h) = bq.strip_prefix("0x") {
            let hex: String = h.chars().take_while(|c| c.is_ascii_hexdigit() || *c == '_').filter(|c| *c != '_').collect();
            u64::from_str_radix(&hex, 16).ok()?
        } else if bq.starts_with("u64::MAX") || bq.starts_with("core::u64::MAX") || bq.starts_with("std::u64::MAX") {
            u64::MAX
        } else {
            first_number(bq)?
        };
        return Some(ExpSt::CompleteChunk(a as usize, v));
    }
    if let Some(p) = s.find("Complete(") {
        let inner = &s[p + 9..];
        if let Some(q) = inner.find(".len()") {
            let id = ident_before(inner, q);
            return consts.get(id).map(|b| ExpSt::Complete(b.len()));
        }
        return first_number(inner).map(|n| ExpSt::Complete(n as usize));
    }
    if s.contains("Err(") {
        return err_kind(s).map(ExpSt::Err);
    }
    None
}

/// the bytes an argument expression denotes: a literal, or a (possibly decorated) constant
fn resolve_buf(arg: &str, consts: &HashMap<String, Vec<u8>>) -> Option<Vec<u8>> {
    let lits = extract_literals(arg);
    if lits.len() == 1 {
        return Some(lits[0].clone());
    }
    if lits.len() > 1 {
        return None;
    }
    let a = arg.trim().trim_start_matches('&').trim();
    let a = a.strip_suffix(".as_ref()").unwrap_or(a);
    let a = a.strip_suffix("[..]").unwrap_or(a);
    let a = a.rsplit("::").next().unwrap_or(a).trim();
    if a.chars().all(|c| c.is_ascii_alphanumeric() || c == '_') {
        consts.get(a).cloned()
    } else {
        None
    }
}

fn attach_assert(st: &str, var_cases: &HashMap<String, usize>, cases: &mut [TExp], used: &mut usize) -> bool {
    // assert_eq!(VAR.field..., literal-or-number)
    let Some(rest) = st.strip_prefix("assert_eq!(") else { return false };
    let var = ident_at(rest, 0);
    let Some(&ci) = var_cases.get(var) else { return false };
    let after = &rest[var.len()..];
    let Some(comma) = top_level_comma(after) else { return false };
    let (lhs, rhs) = (after[..comma].trim(), after[comma + 1..].trim());
    let c = &mut cases[ci];
    let lit = || extract_literals(rhs).into_iter().next();
    let ok = if lhs == ".method.unwrap()" {
        c.method = lit();
        c.method.is_some()
    } else if lhs == ".path.unwrap()" {
        c.path = lit();
        c.path.is_some()
    } else if lhs == ".reason.unwrap()" {
        c.reason = lit();
        c.reason.is_some()
    } else if lhs == ".version.unwrap()" {
        c.version = first_number(rhs).map(|n| n as u8);
        c.version.is_some()
    } else if lhs == ".code.unwrap()" {
        c.code = first_number(rhs).map(|n| n as u16);
        c.code.is_some()
    } else if lhs == ".headers.len()" {
        c.n_headers = if rhs.starts_with("NUM_OF_HEADERS") { Some(c.cap) } else { first_number(rhs).map(|n| n as usize) };
        c.n_headers.is_some()
    } else if let Some(r) = lhs.strip_prefix(".headers[") {
        let idx = first_number(r).map(|n| n as usize);
        let is_name = r.ends_with("].name");
        let is_value = r.ends_with("].value");
        match (idx, lit()) {
            (Some(i), Some(l)) if is_name || is_value => {
                c.headers.push((i, is_name, l));
                true
            }
            _ => false,
        }
    } else {
        false
    };
    if ok {
        *used += 1;
    }
    ok
}

fn top_level_comma(s: &str) -> Option<usize> {
    let b = s.as_bytes();
    let mut depth = 0i32;
    let mut i = 0;
    while i < b.len() {
        match b[i] {
            b'"' => i = skip_string(b, i),
            b'\'' => i = skip_char(b, i),
            b'(' | b'[' | b'{' => {
                depth += 1;
                i += 1;
            }
            b')' | b']' | b'}' => {
                depth -= 1;
                i += 1;
            }
            b',' if depth == 0 => return Some(i),
            _ => i += 1,
        }
    }
    None
}

fn last_top_level_comma(s: &str) -> Option<usize> {
    let mut off = 0;
    let mut last = None;
    while let Some(p) = top_level_comma(&s[off..]) {
        last = Some(off + p);
        off += p + 1;
    }
    last
}

fn collect_consts(src: &str, into: &mut HashMap<String, Vec<u8>>) {
    for st in statements(src) {
        // the declaration may be preceded by other items (fn headers, attributes) in the same
        // `;`-delimited chunk: look at its tail
        for kw in ["static ", "const "] {
            if let Some(p) = st.rfind(kw) {
                let decl = &st[p + kw.len()..];
                let name = ident_at(decl, 0);
                if name.is_empty() || !decl[name.len()..].trim_start().starts_with(':') {
                    continue;
                }
                if !decl.contains("[u8]") {
                    continue;
                }
                if let Some(eq) = decl.find('=') {
                    let lits = extract_literals(&decl[eq..]);
                    if lits.len() == 1 {
                        into.insert(name.to_string(), lits[0].clone());
                    }
                }
            }
        }
    }
}

fn scan_body(test: &str, file: &'static str, body: &str, global: &HashMap<String, Vec<u8>>, default_cap: usize, ex: &mut Extracted) {
    let mut consts = global.clone();
    collect_consts(body, &mut consts);
    let mut cap = default_cap;
    let mut var_kind: HashMap<String, Kind> = HashMap::new();
    let mut var_case: HashMap<String, usize> = HashMap::new();
    let mut pending: HashMap<String, usize> = HashMap::new();
    for st in statements(body) {
        // strip a leading block opener / attribute noise
        let st = st.trim_start_matches(|c: char| c == '{' || c == '}' || c.is_whitespace()).to_string();
        if let Some(p) = st.find("EMPTY_HEADER;") {
            let tail = &st[p + 13..];
            cap = if tail.trim_start().starts_with("NUM_OF_HEADERS") { default_cap } else { first_number(tail).map(|n| n as usize).unwrap_or(default_cap) };
            continue;
        }
        if let Some(p) = st.find("= Request::new(").or_else(|| st.find("= Response::new(")) {
            let kind = if st[p..].starts_with("= Request") { Kind::Request } else { Kind::Response };
            let v = ident_before(st[..p].trim_end(), st[..p].trim_end().len()).to_string();
            var_kind.insert(v.clone(), kind);
            var_case.remove(&v);
            continue;
        }
        if st.contains("parse_chunk_size(") {
            if let Some(rest) = st.strip_prefix("assert_eq!(") {
                if let Some(c) = top_level_comma(rest) {
                    let call = &rest[..c];
                    let exp = &rest[c + 1..];
                    let open = call.find('(').unwrap();
                    let arg = &call[open + 1..call.rfind(')').unwrap_or(call.len())];
                    if let (Some(buf), Some(stt)) = (resolve_buf(arg, &consts), parse_status(exp, &consts)) {
                        ex.cases.push(TExp { test: test.to_string(), file, kind: Some(Kind::Chunk), buf, status: Some(stt), ..Default::default() });
                        ex.assertions_used += 1;
                        continue;
                    }
                }
            }
            ex.statements_skipped += 1;
            continue;
        }
        let call_pos = [".parse_request(", ".parse_response(", ".parse("].iter().filter_map(|m| st.find(m).map(|p| (p, *m))).min();
        if let Some((p, m)) = call_pos {
            let open = p + m.len() - 1;
            let Some(close) = matching(st.as_bytes(), open) else {
                ex.statements_skipped += 1;
                continue;
            };
            let args = &st[open + 1..close - 1];
            let (var, bufarg) = if m == ".parse(" {
                (ident_before(&st, p).to_string(), args.to_string())
            } else {
                let Some(c) = last_top_level_comma(args) else {
                    ex.statements_skipped += 1;
                    continue;
                };
                let v = args[..c].trim().trim_start_matches("&mut").trim().to_string();
                (v, args[c + 1..].to_string())
            };
            let kind = match m {
                ".parse_request(" => Some(Kind::Request),
                ".parse_response(" => Some(Kind::Response),
                _ => var_kind.get(&var).copied(),
            };
            let mut cfg = 0u8;
            for (name, bit) in OPTS.iter() {
                if st[..p].contains(&format!("{}(true)", name)) {
                    cfg |= bit;
                }
            }
            match (kind, resolve_buf(&bufarg, &consts)) {
                (Some(kind), Some(buf)) => {
                    let idx = ex.cases.len();
                    ex.cases.push(TExp { test: test.to_string(), file, kind: Some(kind), cfg, cap, buf, ..Default::default() });
                    var_case.insert(var.clone(), idx);
                    if let Some(l) = st.strip_prefix("let ") {
                        let l = l.trim_start_matches("mut ").trim_start();
                        pending.insert(ident_at(l, 0).to_string(), idx);
                    } else if st.starts_with("assert_eq!(") {
                        // assert_eq!(x.parse(BUF), EXPECTED)
                        let exp = &st[close..];
                        if let Some(c) = exp.find(',') {
                            if let Some(s) = parse_status(&exp[c + 1..], &consts) {
                                ex.cases[idx].status = Some(s);
                                ex.assertions_used += 1;
                            }
                        }
                    }
                }
                _ => {
                    var_case.remove(&var);
                    ex.statements_skipped += 1;
                }
            }
            continue;
        }
        if let Some(rest) = st.strip_prefix("assert_eq!(") {
            let v = ident_at(rest, 0);
            if let Some(&ci) = pending.get(v) {
                if rest[v.len()..].trim_start().starts_with(',') {
                    let exp = &rest[v.len()..].trim_start()[1..];
                    if let Some(s) = parse_status(exp, &consts) {
                        ex.cases[ci].status = Some(s);
                        ex.assertions_used += 1;
                        continue;
                    }
                }
            }
            if attach_assert(&st, &var_case, &mut ex.cases, &mut ex.assertions_used) {
                continue;
            }
            ex.statements_skipped += 1;
        }
    }
}

pub fn extract_from(src: &str, file: &'static str, ex: &mut Extracted) {
    let b = src.as_bytes();
    let default_cap = src
        .find("const NUM_OF_HEADERS: usize =")
        .and_then(|p| first_number(&src[p + 28..p + 40]))
        .unwrap_or(4) as usize;
    let mut global = HashMap::new();
    // module-level constants: only declarations at item level are reliably `;`-delimited; a
    // function-local constant of the same name overrides it in scan_body
    collect_consts(src, &mut global);
    // 1. macro tests
    for (mac, kind, var) in [("req! {", Kind::Request, "req"), ("res! {", Kind::Response, "res")] {
        let mut from = 0;
        while let Some(p) = src[from..].find(mac) {
            let at = from + p;
            from = at + mac.len();
            // whole word and not the recursive call inside macro_rules
            if at > 0 && (b[at - 1].is_ascii_alphanumeric() || b[at - 1] == b'_') {
                continue;
            }
            let open = at + mac.len() - 1;
            let Some(close) = matching(b, open) else { continue };
            let body = &src[open + 1..close - 1];
            if body.trim_start().starts_with('$') {
                continue;
            }
            ex.tests_seen += 1;
            let Some(c1) = top_level_comma(body) else { continue };
            let name = body[..c1].trim().to_string();
            let rest = &body[c1 + 1..];
            // the closure's opening `|` is the first one after the buffer literal
            let lit_close = rest.find('"').map(|q| skip_string(rest.as_bytes(), q)).unwrap_or(0).min(rest.len());
            let Some(bar) = rest[lit_close..].find('|').map(|p| p + lit_close) else { continue };
            let head = &rest[..bar];
            let lits = extract_literals(head);
            if lits.is_empty() {
                ex.tests_skipped_computed_input += 1;
                continue;
            }
            let buf = lits[0].clone();
            // status expression = what follows the literal's closing quote
            let lit_end = {
                let hb = head.as_bytes();
                let q = head.find('"').unwrap();
                skip_string(hb, q)
            };
            let stext = head[lit_end.min(head.len())..].trim().trim_start_matches(',').trim().trim_end_matches(',').trim();
            let status = if stext.is_empty() { Some(ExpSt::Complete(buf.len())) } else { parse_status(stext, &global) };
            if status.is_some() {
                ex.assertions_used += 1;
            }
            let idx = ex.cases.len();
            ex.cases.push(TExp { test: name, file, kind: Some(kind), cfg: 0, cap: default_cap, buf, status, ..Default::default() });
            // closure body
            let after = &rest[bar..];
            if let Some(ob) = after.find('{') {
                let ab = after.as_bytes();
                if let Some(cb) = matching(ab, ob) {
                    let clos = &after[ob + 1..cb - 1];
                    let mut vc = HashMap::new();
                    // the closure argument is named in |arg|
                    let arg = after[1..].split('|').next().unwrap_or(var).trim().to_string();
                    vc.insert(arg, idx);
                    for st in statements(clos) {
                        if st.starts_with("assert") && !attach_assert(&st, &vc, &mut ex.cases, &mut ex.assertions_used) {
                            ex.statements_skipped += 1;
                        }
                    }
                }
            }
        }
    }
    // 2. #[test] fns
    let mut from = 0;
    while let Some(p) = src[from..].find("#[test]") {
        let at = from + p;
        from = at + 7;
        let Some(fp) = src[from..].find("fn ") else { break };
        let name = ident_at(src, from + fp + 3).to_string();
        let Some(ob) = src[from + fp..].find('{') else { break };
        let open = from + fp + ob;
        let Some(close) = matching(b, open) else { continue };
        let body = &src[open + 1..close - 1];
        from = close;
        ex.tests_seen += 1;
        if body.contains("format!(") || body.contains("for ") || body.contains("while ") {
            ex.tests_skipped_computed_input += 1;
            continue;
        }
        scan_body(&name, file, body, &global, default_cap, ex);
    }
}

pub fn repo_tests() -> &'static Extracted {
    static E: std::sync::OnceLock<Extracted> = std::sync::OnceLock::new();
    E.get_or_init(|| {
        let root = crate::repo_dir();
        let mut ex = Extracted::default();
        for (f, tag) in [("src/lib.rs", "src/lib.rs"), ("tests/uri.rs", "tests/uri.rs")] {
            if let Ok(s) = std::fs::read_to_string(format!("{}/{}", root, f)) {
                // unit tests live after the cfg(test) marker; integration tests are the whole file
                let start = if f == "src/lib.rs" { s.find("#[cfg(test)]\nmod tests").unwrap_or(s.len()) } else { 0 };
                extract_from(&s[start..], tag, &mut ex);
            }
        }
        ex.cases.retain(|c| c.kind.is_some());
        ex
    })
}

/// Compare the model with one extracted expectation; Err(text) describes the disagreement.
pub fn model_agrees(c: &TExp) -> Result<usize, String> {
    let kind = c.kind.unwrap();
    let m = model::model(kind, &c.buf, c.cfg, c.cap);
    let mut compared = 0usize;
    let bad = |what: &str, exp: String, got: String| -> String {
        format!("test `{}` ({}): {} expected {} but the model says {}", c.test, c.file, what, exp, got)
    };
    if let Some(st) = &c.status {
        compared += 1;
        let ok = match (st, &m.verdict) {
            (ExpSt::Complete(n), Verdict::Complete(k)) => n == k,
            (ExpSt::CompleteChunk(n, v), Verdict::Complete(k)) => n == k && m.chunk == Some(*v),
            (ExpSt::Partial, Verdict::Partial) | (ExpSt::Partial, Verdict::PartialOrErr { .. }) => true,
            (ExpSt::Err(k), Verdict::Err { kinds, .. }) | (ExpSt::Err(k), Verdict::PartialOrErr { kinds, .. }) => kinds.has(*k),
            _ => false,
        };
        if !ok {
            return Err(bad("status", format!("{:?}", st), format!("{} (chunk {:?})", m.verdict.show(), m.chunk)));
        }
    }
    let complete = matches!(m.verdict, Verdict::Complete(_));
    let sl = |r: (usize, usize)| c.buf[r.0..r.1].to_vec();
    if let Some(e) = &c.method {
        compared += 1;
        if m.method.map(sl).as_ref() != Some(e) {
            return Err(bad("method", format!("{:?}", String::from_utf8_lossy(e)), format!("{:?}", m.method)));
        }
    }
    if let Some(e) = &c.path {
        compared += 1;
        if m.path.map(sl).as_ref() != Some(e) {
            return Err(bad("path", format!("{:?}", String::from_utf8_lossy(e)), format!("{:?}", m.path)));
        }
    }
    if let Some(e) = c.version {
        compared += 1;
        if m.version != Some(e) {
            return Err(bad("version", e.to_string(), format!("{:?}", m.version)));
        }
    }
    if let Some(e) = c.code {
        compared += 1;
        if m.code != Some(e) {
            return Err(bad("code", e.to_string(), format!("{:?}", m.code)));
        }
    }
    if let Some(e) = &c.reason {
        compared += 1;
        let got = m.reason.map(|r| r.map(sl).unwrap_or_default());
        if got.as_ref() != Some(e) {
            return Err(bad("reason", format!("{:?}", String::from_utf8_lossy(e)), format!("{:?}", got)));
        }
    }
    if complete {
        if let Some(n) = c.n_headers {
            compared += 1;
            if m.headers.len() != n {
                return Err(bad("headers.len()", n.to_string(), m.headers.len().to_string()));
            }
        }
    }
    for (i, is_name, e) in &c.headers {
        match m.headers.get(*i) {
            Some((nr, vr)) => {
                compared += 1;
                let got = sl(if *is_name { *nr } else { *vr });
                if &got != e {
                    return Err(bad(
                        &format!("headers[{}].{}", i, if *is_name { "name" } else { "value" }),
                        format!("{:?}", String::from_utf8_lossy(e)),
                        format!("{:?}", String::from_utf8_lossy(&got)),
                    ));
                }
            }
            None if complete => {
                return Err(bad(&format!("headers[{}]", i), "a header".into(), format!("only {} headers", m.headers.len())));
            }
            None => {} // after Partial/Err the array may hold the caller's previous contents
        }
    }
    Ok(compared)
}
