//! Comparison of the real parser's observation with the reference model's outcome.

use crate::model::{MOut, Verdict};
use crate::real::{Obs, Sl, St};

pub const W_VERDICT: u32 = 1; // class + offset
pub const W_ERRKIND: u32 = 2; // error kind within the model's set
pub const W_START: u32 = 4; // start-line fields on Complete
pub const W_HEADERS: u32 = 8; // header list on Complete
pub const W_CHUNK: u32 = 16; // chunk size value on Complete

pub struct Mismatch {
    pub sig: String,
    pub detail: String,
}

fn mm(sig: String, detail: String) -> Result<(), Mismatch> {
    Err(Mismatch { sig, detail })
}

fn range_eq(obs: &Obs, got: Option<Sl>, want: Option<(usize, usize)>) -> bool {
    match (got, want) {
        (None, None) => true,
        (Some(s), Some((a, b))) => {
            if b == a {
                s.len == 0
            } else {
                obs.off(s) == Some(a) && s.len == b - a
            }
        }
        _ => false,
    }
}

pub fn compare(obs: &Obs, m: &MOut, what: u32) -> Result<(), Mismatch> {
    if let St::Panic(msg) = &obs.st {
        return mm("panic".into(), format!("parser panicked: {}", msg));
    }
    if what & W_VERDICT != 0 {
        let ok = match (&obs.st, &m.verdict) {
            (St::Complete(a), Verdict::Complete(b)) => {
                if a != b {
                    return mm(
                        "offset".into(),
                        format!("real Complete({}) but model Complete({})", a, b),
                    );
                }
                true
            }
            (St::Partial, Verdict::Partial) => true,
            (St::Err(_), Verdict::Err { .. }) => true,
            (St::Partial, Verdict::PartialOrErr { .. }) => true,
            (St::Err(_), Verdict::PartialOrErr { .. }) => true,
            _ => false,
        };
        if !ok {
            let elem = match &m.verdict {
                Verdict::Err { elem, .. } | Verdict::PartialOrErr { elem, .. } => *elem,
                _ => "-",
            };
            return mm(
                format!("verdict/real-{}/model-{}/{}", obs.st.class(), m.verdict.class(), elem),
                format!("real {} but model {}", obs.st.show(), m.verdict.show()),
            );
        }
    }
    if what & W_ERRKIND != 0 {
        if let (St::Err(k), Verdict::Err { kinds, elem, .. } | Verdict::PartialOrErr { kinds, elem, .. }) =
            (&obs.st, &m.verdict)
        {
            if !kinds.has(*k) {
                return mm(
                    format!("errkind/real-{}/model-{}/{}", k.name(), kinds.show(), elem),
                    format!("real {} but model {}", obs.st.show(), m.verdict.show()),
                );
            }
        }
    }
    if let (St::Complete(_), Verdict::Complete(_)) = (&obs.st, &m.verdict) {
        if what & W_START != 0 {
            if !range_eq(obs, obs.method, m.method) {
                return mm("field/method".into(), format!("method: real {:?} (buf at {:#x}) model {:?}", obs.method, obs.buf_ptr, m.method));
            }
            if !range_eq(obs, obs.path, m.path) {
                return mm("field/path".into(), format!("path: real {:?} (buf at {:#x}) model {:?}", obs.path, obs.buf_ptr, m.path));
            }
            if obs.version != m.version {
                return mm("field/version".into(), format!("version: real {:?} model {:?}", obs.version, m.version));
            }
            if obs.code != m.code {
                return mm("field/code".into(), format!("code: real {:?} model {:?}", obs.code, m.code));
            }
            let want_reason = match m.reason {
                None => None,
                Some(None) => Some((0, 0)),
                Some(Some(r)) => Some(r),
            };
            if !range_eq(obs, obs.reason, want_reason) {
                return mm("field/reason".into(), format!("reason: real {:?} = {:?} (buf at {:#x}) model {:?}", obs.reason, obs.reason_b.as_ref().map(|b| crate::engine::show_bytes(b, 80)), obs.buf_ptr, m.reason));
            }
        }
        if what & W_HEADERS != 0 {
            if obs.headers.len() != m.headers.len() {
                return mm(
                    "headers/count".into(),
                    format!("real reports {} headers, model {}", obs.headers.len(), m.headers.len()),
                );
            }
            for (i, ((n, v), (mn, mv))) in obs.headers.iter().zip(m.headers.iter()).enumerate() {
                if !range_eq(obs, Some(*n), Some(*mn)) {
                    return mm(
                        "headers/name".into(),
                        format!("header {} name: real {:?} = {:?}, model range {:?}", i, n, crate::engine::show_bytes(&obs.headers_b[i].0, 80), mn),
                    );
                }
                if !range_eq(obs, Some(*v), Some(*mv)) {
                    return mm(
                        "headers/value".into(),
                        format!("header {} value: real {:?} = {:?}, model range {:?}", i, v, crate::engine::show_bytes(&obs.headers_b[i].1, 80), mv),
                    );
                }
            }
        }
        if what & W_CHUNK != 0 && obs.chunk_size != m.chunk {
            return mm(
                "chunk/size".into(),
                format!("chunk size: real {:?} model {:?}", obs.chunk_size, m.chunk),
            );
        }
    }
    Ok(())
}
