//! Running the real parser (httparse from /repo, hooks on) on a placed buffer and
//! recording everything observable.

use crate::arena::{Arena, Placement};
use httparse::{Header, ParserConfig, Request, Response, Status, EMPTY_HEADER};
use std::mem::MaybeUninit;
use std::panic::{catch_unwind, AssertUnwindSafe};

#[derive(Clone, Copy, PartialEq, Eq, Debug, Hash, PartialOrd, Ord)]
pub enum Kind {
    Request,
    Response,
    Headers,
    Chunk,
}

impl Kind {
    pub fn name(self) -> &'static str {
        match self {
            Kind::Request => "request",
            Kind::Response => "response",
            Kind::Headers => "headers",
            Kind::Chunk => "chunk",
        }
    }
    pub fn from_name(s: &str) -> Option<Kind> {
        Some(match s {
            "request" => Kind::Request,
            "response" => Kind::Response,
            "headers" => Kind::Headers,
            "chunk" => Kind::Chunk,
            _ => return None,
        })
    }
}

#[derive(Clone, Copy, PartialEq, Eq, Debug, Hash, PartialOrd, Ord)]
#[repr(u8)]
pub enum Entry {
    ReqParse = 0,
    ReqCfg = 1,
    ReqUninit = 2,
    ReqCfgUninit = 3,
    RespParse = 4,
    RespCfg = 5,
    RespUninit = 6,
    RespCfgUninit = 7,
    Headers = 8,
    Chunk = 9,
}

pub const ALL_ENTRIES: [Entry; 10] = [
    Entry::ReqParse,
    Entry::ReqCfg,
    Entry::ReqUninit,
    Entry::ReqCfgUninit,
    Entry::RespParse,
    Entry::RespCfg,
    Entry::RespUninit,
    Entry::RespCfgUninit,
    Entry::Headers,
    Entry::Chunk,
];

impl Entry {
    pub fn from_u8(v: u8) -> Entry {
        ALL_ENTRIES[(v as usize) % 10]
    }
    pub fn kind(self) -> Kind {
        match self as u8 {
            0..=3 => Kind::Request,
            4..=7 => Kind::Response,
            8 => Kind::Headers,
            _ => Kind::Chunk,
        }
    }
    /// does this entry point take a ParserConfig?
    pub fn takes_cfg(self) -> bool {
        matches!(
            self,
            Entry::ReqCfg | Entry::ReqCfgUninit | Entry::RespCfg | Entry::RespCfgUninit
        )
    }
    pub fn uninit(self) -> bool {
        matches!(
            self,
            Entry::ReqUninit | Entry::ReqCfgUninit | Entry::RespUninit | Entry::RespCfgUninit
        )
    }
    pub fn name(self) -> &'static str {
        match self {
            Entry::ReqParse => "Request::parse",
            Entry::ReqCfg => "ParserConfig::parse_request",
            Entry::ReqUninit => "Request::parse_with_uninit_headers",
            Entry::ReqCfgUninit => "ParserConfig::parse_request_with_uninit_headers",
            Entry::RespParse => "Response::parse",
            Entry::RespCfg => "ParserConfig::parse_response",
            Entry::RespUninit => "ParserConfig::default().parse_response_with_uninit_headers",
            Entry::RespCfgUninit => "ParserConfig::parse_response_with_uninit_headers",
            Entry::Headers => "parse_headers",
            Entry::Chunk => "parse_chunk_size",
        }
    }
    /// the config-taking entry of a kind (request/response), used when a non-default
    /// config must be exercised
    pub fn cfg_entry(kind: Kind) -> Entry {
        match kind {
            Kind::Request => Entry::ReqCfg,
            Kind::Response => Entry::RespCfg,
            Kind::Headers => Entry::Headers,
            Kind::Chunk => Entry::Chunk,
        }
    }
}

// Config bits.
pub const C_SPACES_AFTER_NAME: u8 = 1 << 0; // responses
pub const C_MULTILINE: u8 = 1 << 1; // responses
pub const C_MULTISPACE_REQ: u8 = 1 << 2; // requests
pub const C_MULTISPACE_RESP: u8 = 1 << 3; // responses
pub const C_SPACE_BEFORE_FIRST: u8 = 1 << 4; // both
pub const C_IGNORE_RESP: u8 = 1 << 5; // responses
pub const C_IGNORE_REQ: u8 = 1 << 6; // requests

pub const RESPONSE_ONLY_BITS: u8 =
    C_SPACES_AFTER_NAME | C_MULTILINE | C_MULTISPACE_RESP | C_IGNORE_RESP;
pub const REQUEST_ONLY_BITS: u8 = C_MULTISPACE_REQ | C_IGNORE_REQ;

pub const CFG_BIT_NAMES: [&str; 7] = [
    "allow_spaces_after_header_name_in_responses",
    "allow_obsolete_multiline_headers_in_responses",
    "allow_multiple_spaces_in_request_line_delimiters",
    "allow_multiple_spaces_in_response_status_delimiters",
    "allow_space_before_first_header_name",
    "ignore_invalid_headers_in_responses",
    "ignore_invalid_headers_in_requests",
];

pub fn make_config(bits: u8) -> ParserConfig {
    let mut c = ParserConfig::default();
    c.allow_spaces_after_header_name_in_responses(bits & C_SPACES_AFTER_NAME != 0);
    c.allow_obsolete_multiline_headers_in_responses(bits & C_MULTILINE != 0);
    c.allow_multiple_spaces_in_request_line_delimiters(bits & C_MULTISPACE_REQ != 0);
    c.allow_multiple_spaces_in_response_status_delimiters(bits & C_MULTISPACE_RESP != 0);
    c.allow_space_before_first_header_name(bits & C_SPACE_BEFORE_FIRST != 0);
    c.ignore_invalid_headers_in_responses(bits & C_IGNORE_RESP != 0);
    c.ignore_invalid_headers_in_requests(bits & C_IGNORE_REQ != 0);
    c
}

/// The same final configuration reached through a seed-dependent *history of builder
/// calls*: options are first toggled to the opposite of their final value (sometimes), the
/// final values are then set in a permuted order, and a setter whose final value is the
/// default `false` is sometimes not called at all. A configuration is the set of enabled
/// options, however the builder got there.
pub fn make_config_seeded(bits: u8, seed: u64) -> ParserConfig {
    fn set(c: &mut ParserConfig, i: usize, v: bool) {
        match i {
            0 => c.allow_spaces_after_header_name_in_responses(v),
            1 => c.allow_obsolete_multiline_headers_in_responses(v),
            2 => c.allow_multiple_spaces_in_request_line_delimiters(v),
            3 => c.allow_multiple_spaces_in_response_status_delimiters(v),
            4 => c.allow_space_before_first_header_name(v),
            5 => c.ignore_invalid_headers_in_responses(v),
            _ => c.ignore_invalid_headers_in_requests(v),
        };
    }
    const BITS: [u8; 7] = [C_SPACES_AFTER_NAME, C_MULTILINE, C_MULTISPACE_REQ, C_MULTISPACE_RESP, C_SPACE_BEFORE_FIRST, C_IGNORE_RESP, C_IGNORE_REQ];
    let mut x = seed | 1;
    let mut next = || {
        x ^= x << 13;
        x ^= x >> 7;
        x ^= x << 17;
        x
    };
    let mut c = ParserConfig::default();
    if seed % 4 == 0 {
        // the plain builder use
        for i in 0..7 {
            set(&mut c, i, bits & BITS[i] != 0);
        }
        return c;
    }
    let mut touched = [false; 7];
    // noise: opposite values first
    for _ in 0..(next() % 4) {
        let i = (next() % 7) as usize;
        set(&mut c, i, bits & BITS[i] == 0);
        touched[i] = true;
    }
    // final values in a rotated / reversed order
    let start = (next() % 7) as usize;
    let rev = next() % 2 == 0;
    for k in 0..7 {
        let i = if rev { (start + 7 - k) % 7 } else { (start + k) % 7 };
        let v = bits & BITS[i] != 0;
        if !v && !touched[i] && next() % 2 == 0 {
            continue; // default already false
        }
        set(&mut c, i, v);
    }
    c
}

#[derive(Clone, Copy, PartialEq, Eq, Debug, Hash, PartialOrd, Ord)]
pub enum ErrKind {
    HeaderName,
    HeaderValue,
    NewLine,
    Status,
    Token,
    TooManyHeaders,
    Version,
    InvalidChunkSize,
}

impl ErrKind {
    pub fn from_real(e: httparse::Error) -> ErrKind {
        match e {
            httparse::Error::HeaderName => ErrKind::HeaderName,
            httparse::Error::HeaderValue => ErrKind::HeaderValue,
            httparse::Error::NewLine => ErrKind::NewLine,
            httparse::Error::Status => ErrKind::Status,
            httparse::Error::Token => ErrKind::Token,
            httparse::Error::TooManyHeaders => ErrKind::TooManyHeaders,
            httparse::Error::Version => ErrKind::Version,
        }
    }
    pub fn name(self) -> &'static str {
        match self {
            ErrKind::HeaderName => "HeaderName",
            ErrKind::HeaderValue => "HeaderValue",
            ErrKind::NewLine => "NewLine",
            ErrKind::Status => "Status",
            ErrKind::Token => "Token",
            ErrKind::TooManyHeaders => "TooManyHeaders",
            ErrKind::Version => "Version",
            ErrKind::InvalidChunkSize => "InvalidChunkSize",
        }
    }
}

#[derive(Clone, PartialEq, Eq, Debug, Hash)]
pub enum St {
    Complete(usize),
    Partial,
    Err(ErrKind),
    Panic(String),
}

impl St {
    pub fn class(&self) -> &'static str {
        match self {
            St::Complete(_) => "Complete",
            St::Partial => "Partial",
            St::Err(_) => "Err",
            St::Panic(_) => "Panic",
        }
    }
    pub fn show(&self) -> String {
        match self {
            St::Complete(n) => format!("Complete({})", n),
            St::Partial => "Partial".to_string(),
            St::Err(e) => format!("Err({})", e.name()),
            St::Panic(m) => format!("PANIC({})", m),
        }
    }
}

/// A slice handed back by the parser, as an absolute address range.
#[derive(Clone, Copy, PartialEq, Eq, Debug, Hash)]
pub struct Sl {
    pub ptr: usize,
    pub len: usize,
}

impl Sl {
    fn of(b: &[u8]) -> Sl {
        Sl { ptr: b.as_ptr() as usize, len: b.len() }
    }
}

#[derive(Clone, Copy, PartialEq, Eq, Debug)]
pub enum Prefill {
    /// EMPTY_HEADER in every slot (what the docs show)
    Empty,
    /// recognisable static sentinel headers (init entry points) / 0xA5 poison (uninit)
    Sentinel,
}

#[derive(Clone, Debug)]
pub struct Spec<'a> {
    pub entry: Entry,
    pub cfg: u8,
    pub cap: usize,
    pub place: Placement,
    pub hdr_at_end: bool,
    pub prefill: Prefill,
    pub buf: &'a [u8],
}

impl<'a> Spec<'a> {
    pub fn new(entry: Entry, cfg: u8, cap: usize, buf: &'a [u8]) -> Spec<'a> {
        Spec {
            entry,
            cfg,
            cap,
            place: Placement::End,
            hdr_at_end: true,
            prefill: Prefill::Empty,
            buf,
        }
    }
}

/// Everything observable after one call.
#[derive(Clone, Debug)]
pub struct Obs {
    pub st: St,
    pub buf_ptr: usize,
    pub buf_len: usize,
    pub method: Option<Sl>,
    pub path: Option<Sl>,
    pub version: Option<u8>,
    pub code: Option<u16>,
    pub reason: Option<Sl>,
    pub chunk_size: Option<u64>,
    /// address/len of the `headers` slice of the value after the call (for
    /// parse_headers: of the returned slice on Complete, else (0,0))
    pub hslice: Sl,
    /// the same slice before the call (init entry points: the caller's array; uninit:
    /// the empty slice the value was created with)
    pub hslice_before: Sl,
    /// address of the caller's array
    pub array_ptr: usize,
    /// contents of the `headers` slice after the call — only read when that is
    /// sound: initialised entry points always; uninit entry points and parse_headers
    /// only on Complete
    pub headers: Vec<(Sl, Sl)>,
    /// raw words of every slot of the caller's array after the call
    pub array_raw: Vec<[usize; 4]>,
    /// raw words of every slot before the call
    pub array_before: Vec<[usize; 4]>,
    /// copies of the field contents (so that they can be inspected after the arena is reused)
    pub method_b: Option<Vec<u8>>,
    pub path_b: Option<Vec<u8>>,
    pub reason_b: Option<Vec<u8>>,
    pub headers_b: Vec<(Vec<u8>, Vec<u8>)>,
    /// allocator calls on this thread during the parser call (C19)
    pub allocs: u64,
    /// H3 counters for the call: [new, peek, peek_ahead, peek_n, peek_n_bytes, advance,
    /// advance_bytes, set_cursor, set_cursor_back_bytes, as_ref, next]
    pub counters: [u64; 11],
    /// canary bytes next to the caller's array (on the side away from the guard page) intact
    pub canary_ok: bool,
}

impl Obs {
    /// offset of a slice relative to the buffer if it lies inside it
    pub fn off(&self, s: Sl) -> Option<usize> {
        if s.ptr >= self.buf_ptr && s.ptr + s.len <= self.buf_ptr + self.buf_len {
            Some(s.ptr - self.buf_ptr)
        } else {
            None
        }
    }
}

static SENT_NAMES: [&str; 8] = ["S0", "S1", "S2", "S3", "S4", "S5", "S6", "S7"];
static SENT_VALUES: [&[u8]; 8] = [b"v0", b"v1", b"v2", b"v3", b"v4", b"v5", b"v6", b"v7"];

pub fn sentinel(i: usize) -> Header<'static> {
    Header { name: SENT_NAMES[i % 8], value: SENT_VALUES[(i / 8 + i) % 8] }
}

pub fn header_raw(h: &Header<'_>) -> [usize; 4] {
    // Header is two fat pointers; read the 4 words whatever the field order is.
    assert_eq!(std::mem::size_of::<Header<'_>>(), 32);
    unsafe { std::ptr::read_unaligned(h as *const Header<'_> as *const [usize; 4]) }
}

pub const POISON: usize = 0xA5A5_A5A5_A5A5_A5A5;

thread_local! {
    /// true while the real parser is running on this thread (panics there are judged per case)
    pub static IN_PARSER: std::cell::Cell<bool> = const { std::cell::Cell::new(false) };
    pub static INFLIGHT: std::cell::Cell<(*mut u8, usize)> = const { std::cell::Cell::new((std::ptr::null_mut(), 0)) };
}

/// Cold-start pass: when set, the cached feature cell is reset to 0 ("not yet detected")
/// before every call, so that each call takes the dispatcher's first-call path.
pub static COLD: std::sync::atomic::AtomicBool = std::sync::atomic::AtomicBool::new(false);

/// The global runtime-backend value last set through `set_backend`.
pub static BACKEND: std::sync::atomic::AtomicU8 = std::sync::atomic::AtomicU8::new(0);

/// Force the dispatching cell (H2). 0 = "not yet detected" (cold start), 1 = AVX2,
/// 2 = SSE4.2, 3.. = scalar. Global: callers must not run cases concurrently with a
/// different value.
pub fn set_backend(v: u8) {
    BACKEND.store(v, std::sync::atomic::Ordering::SeqCst);
    // 255 = cold-start mode: the cell is reset to 0 before every call (see COLD)
    COLD.store(v == 255, std::sync::atomic::Ordering::SeqCst);
    httparse::_verif::simd::set_runtime_feature(if v == 255 { 0 } else { v });
}

pub fn backend_name(v: u8) -> &'static str {
    match v {
        0 => "runtime-detect",
        255 => "cold-start (cell reset before every call)",
        1 => "avx2",
        2 => "sse4.2",
        _ => "scalar",
    }
}

/// false when httparse was built without its runtime dispatcher (SIMD disabled at build time)
pub fn has_runtime_dispatch() -> bool {
    httparse::_verif::simd::HAS_RUNTIME
}

/// Which forced backends make sense on this CPU.
pub fn usable_backends() -> Vec<u8> {
    let mut v = vec![];
    if !httparse::_verif::simd::HAS_RUNTIME {
        return vec![0];
    }
    if is_x86_feature_detected!("avx2") {
        v.push(1);
    }
    if is_x86_feature_detected!("sse4.2") {
        v.push(2);
    }
    v.push(3);
    v
}

pub const SLOT_HDR: usize = 24;

/// In-flight record for calls that do not go through `Ctx::run` (the history interpreters):
/// the buffer of the call about to be made, as a fresh single call.
pub fn note_inflight(entry: Entry, cfg: u8, cap: usize, buf: &[u8]) {
    write_inflight(&Spec { entry, cfg, cap, place: Placement::End, hdr_at_end: true, prefill: Prefill::Empty, buf });
}

fn write_inflight(spec: &Spec<'_>) {
    INFLIGHT.with(|c| {
        let (p, cap) = c.get();
        if p.is_null() {
            return;
        }
        let n = spec.buf.len().min(cap - SLOT_HDR);
        unsafe {
            let hdr: [u8; 8] = [
                spec.entry as u8,
                spec.cfg,
                spec.place.code(),
                BACKEND.load(std::sync::atomic::Ordering::Relaxed),
                matches!(spec.prefill, Prefill::Sentinel) as u8,
                spec.hdr_at_end as u8,
                1, // valid
                0,
            ];
            std::ptr::copy_nonoverlapping(hdr.as_ptr(), p, 8);
            std::ptr::copy_nonoverlapping((spec.cap as u64).to_le_bytes().as_ptr(), p.add(8), 8);
            std::ptr::copy_nonoverlapping(
                (spec.buf.len() as u64).to_le_bytes().as_ptr(),
                p.add(16),
                8,
            );
            std::ptr::copy_nonoverlapping(spec.buf.as_ptr(), p.add(SLOT_HDR), n);
        }
    });
}

/// In-flight record for direct scanner calls (C12): marker byte 0xC1 in slot[7].
pub fn write_inflight_scanner(backend: u8, class: u8, place: u8, start: u16, cell: u8, buf: &[u8]) {
    INFLIGHT.with(|c| {
        let (p, cap) = c.get();
        if p.is_null() {
            return;
        }
        let n = buf.len().min(cap - SLOT_HDR);
        unsafe {
            let hdr: [u8; 8] = [9, backend, place, cell, (start & 0xff) as u8, (start >> 8) as u8, 1, 0xC1];
            std::ptr::copy_nonoverlapping(hdr.as_ptr(), p, 8);
            std::ptr::copy_nonoverlapping((class as u64).to_le_bytes().as_ptr(), p.add(8), 8);
            std::ptr::copy_nonoverlapping((buf.len() as u64).to_le_bytes().as_ptr(), p.add(16), 8);
            std::ptr::copy_nonoverlapping(buf.as_ptr(), p.add(SLOT_HDR), n);
        }
    });
}

pub fn clear_inflight() {
    INFLIGHT.with(|c| {
        let (p, _) = c.get();
        if !p.is_null() {
            unsafe { *p.add(6) = 0 };
        }
    });
}

/// Per-thread context: arenas.
pub struct Ctx {
    pub bufs: Arena,
    pub hdrs: Arena,
    pub max_cap: usize,
    /// fuzz builds (ASan): put the buffer and the header array into exact-size heap
    /// allocations so that the sanitizer's redzones catch any over-read / over-write
    pub heap_mode: bool,
    heap_buf: Vec<u8>,
    heap_hdrs: Vec<[usize; 4]>,
}

impl Ctx {
    pub fn new(max_buf: usize, max_cap: usize) -> Ctx {
        Ctx {
            bufs: Arena::new(max_buf + 4096),
            hdrs: Arena::new(max_cap * 32 + 4096),
            max_cap,
            heap_mode: cfg!(miri),
            heap_buf: Vec::new(),
            heap_hdrs: Vec::new(),
        }
    }

    pub fn ensure(&mut self, buf_len: usize, cap: usize) {
        if buf_len + 256 > self.bufs.usable() {
            self.bufs = Arena::new(buf_len * 2 + 8192);
        }
        if cap * 32 + 512 > self.hdrs.usable() {
            self.hdrs = Arena::new(cap * 64 + 8192);
            self.max_cap = cap * 2;
        }
    }

    /// Run one call of the real parser.
    pub fn run(&mut self, spec: &Spec<'_>) -> Obs {
        self.ensure(spec.buf.len(), spec.cap);
        write_inflight(spec);
        #[cfg(miri)]
        if let Ok(p) = std::env::var("VERIF_MIRI_INFLIGHT") {
            // under Miri an UB report aborts the interpreter: leave the case on disk first
            let rec = crate::engine::CaseRec {
                sub: std::borrow::Cow::Borrowed("miri"),
                entry: spec.entry,
                cfg: spec.cfg,
                cap: spec.cap,
                place: spec.place,
                backend: 0,
                buf: spec.buf.to_vec(),
                aux: vec![spec.hdr_at_end as u64, matches!(spec.prefill, Prefill::Sentinel) as u64],
                bufs: vec![],
            };
            let _ = std::fs::write(p, crate::engine::replay_json("miri", "miri/undefined-behaviour", "Miri reported undefined behaviour during this call (reproduce under cargo +nightly miri)", &rec));
        }
        let mut buf_ptr = self.bufs.place_ptr(spec.buf.len(), spec.place);
        if self.heap_mode {
            // exact-size heap allocation (shrink_to_fit => capacity == len for the allocator)
            self.heap_buf = Vec::with_capacity(spec.buf.len());
            self.heap_buf.extend_from_slice(spec.buf);
            buf_ptr = self.heap_buf.as_mut_ptr();
        }
        // SAFETY: the arena outlives this call; nothing else aliases the region.
        let buf: &'static [u8] = unsafe {
            std::ptr::copy_nonoverlapping(spec.buf.as_ptr(), buf_ptr, spec.buf.len());
            std::slice::from_raw_parts(buf_ptr, spec.buf.len())
        };
        let cap = spec.cap;
        let mut arr_ptr = self.hdrs.region(cap * 32, 8, spec.hdr_at_end) as *mut Header<'static>;
        if self.heap_mode {
            // 64 bytes of slack on each side for the canary, then the sanitizer's redzone
            self.heap_hdrs = vec![[0usize; 4]; cap + 4];
            arr_ptr = unsafe { self.heap_hdrs.as_mut_ptr().add(2) } as *mut Header<'static>;
        }
        let uninit = spec.entry.uninit();
        // prefill
        unsafe {
            for i in 0..cap {
                if uninit {
                    let p = arr_ptr.add(i) as *mut usize;
                    for w in 0..4 {
                        p.add(w).write_unaligned(POISON);
                    }
                } else {
                    arr_ptr.add(i).write(match spec.prefill {
                        Prefill::Empty => EMPTY_HEADER,
                        Prefill::Sentinel => sentinel(i),
                    });
                }
            }
        }
        let read_raw = |n: usize| -> Vec<[usize; 4]> {
            (0..n)
                .map(|i| unsafe { std::ptr::read_unaligned(arr_ptr.add(i) as *const [usize; 4]) })
                .collect()
        };
        let array_before = read_raw(cap);

        let mut obs = Obs {
            st: St::Partial,
            buf_ptr: buf_ptr as usize,
            buf_len: spec.buf.len(),
            method: None,
            path: None,
            version: None,
            code: None,
            reason: None,
            chunk_size: None,
            hslice: Sl { ptr: 0, len: 0 },
            hslice_before: Sl { ptr: 0, len: 0 },
            array_ptr: arr_ptr as usize,
            headers: Vec::new(),
            array_raw: Vec::new(),
            array_before,
            method_b: None,
            path_b: None,
            reason_b: None,
            headers_b: Vec::new(),
            allocs: 0,
            counters: [0; 11],
            canary_ok: true,
        };

        // the builder history is a deterministic function of the case (replayable)
        let config = make_config_seeded(spec.cfg, crate::engine::fnv(&spec.buf[..spec.buf.len().min(24)], spec.buf.len() as u64 * 131 + spec.cfg as u64));
        let collect = |hs: &[Header<'_>], obs: &mut Obs| {
            obs.hslice = Sl { ptr: hs.as_ptr() as usize, len: hs.len() };
            for h in hs {
                obs.headers.push((Sl::of(h.name.as_bytes()), Sl::of(h.value)));
                obs.headers_b.push((h.name.as_bytes().to_vec(), h.value.to_vec()));
            }
        };

        let entry = spec.entry;
        let mut allocs = 0u64;
        // canary next to the array, on the side away from the guard page
        let canary_ptr: *mut u8 = unsafe {
            if spec.hdr_at_end { (arr_ptr as *mut u8).sub(64) } else { (arr_ptr as *mut u8).add(cap * 32) }
        };
        unsafe { std::ptr::write_bytes(canary_ptr, 0xC3, 64) };
        httparse::_verif::counters::reset();
        if COLD.load(std::sync::atomic::Ordering::Relaxed) {
            httparse::_verif::simd::set_runtime_feature(0);
        }
        IN_PARSER.with(|c| c.set(true));
        let r = catch_unwind(AssertUnwindSafe(|| {
            match entry.kind() {
                Kind::Request => {
                    // SAFETY: region sized for `cap` headers inside the arena.
                    let mut empty: [Header<'static>; 0] = [];
                    let (st, req_headers_ok);
                    let mut req;
                    if uninit {
                        obs.hslice_before = Sl { ptr: empty.as_ptr() as usize, len: 0 };
                        req = Request::new(&mut empty[..]);
                        let arr: &'static mut [MaybeUninit<Header<'static>>] = unsafe {
                            std::slice::from_raw_parts_mut(arr_ptr as *mut MaybeUninit<_>, cap)
                        };
                        let r = if entry == Entry::ReqUninit {
                            arm(&mut allocs, || req.parse_with_uninit_headers(buf, arr))
                        } else {
                            arm(&mut allocs, || config.parse_request_with_uninit_headers(&mut req, buf, arr))
                        };
                        st = conv(r);
                        // on non-Complete `headers` is the empty slice we put in; reading
                        // its (zero) elements is sound either way.
                        req_headers_ok = true;
                    } else {
                        let arr: &'static mut [Header<'static>] =
                            unsafe { std::slice::from_raw_parts_mut(arr_ptr, cap) };
                        obs.hslice_before = Sl { ptr: arr_ptr as usize, len: cap };
                        req = Request::new(arr);
                        let r = if entry == Entry::ReqParse {
                            arm(&mut allocs, || req.parse(buf))
                        } else {
                            arm(&mut allocs, || config.parse_request(&mut req, buf))
                        };
                        st = conv(r);
                        req_headers_ok = true;
                    }
                    obs.st = st;
                    obs.method = req.method.map(|s| Sl::of(s.as_bytes()));
                    obs.path = req.path.map(|s| Sl::of(s.as_bytes()));
                    obs.method_b = req.method.map(|s| s.as_bytes().to_vec());
                    obs.path_b = req.path.map(|s| s.as_bytes().to_vec());
                    obs.version = req.version;
                    if req_headers_ok {
                        collect(&*req.headers, &mut obs);
                    }
                }
                Kind::Response => {
                    let mut empty: [Header<'static>; 0] = [];
                    let st;
                    let mut resp;
                    if uninit {
                        obs.hslice_before = Sl { ptr: empty.as_ptr() as usize, len: 0 };
                        resp = Response::new(&mut empty[..]);
                        let arr: &'static mut [MaybeUninit<Header<'static>>] = unsafe {
                            std::slice::from_raw_parts_mut(arr_ptr as *mut MaybeUninit<_>, cap)
                        };
                        let r = if entry == Entry::RespUninit {
                            // Response has no parse_with_uninit_headers of its own: the
                            // default config through the config entry point
                            arm(&mut allocs, || {
                                ParserConfig::default()
                                    .parse_response_with_uninit_headers(&mut resp, buf, arr)
                            })
                        } else {
                            arm(&mut allocs, || config.parse_response_with_uninit_headers(&mut resp, buf, arr))
                        };
                        st = conv(r);
                    } else {
                        let arr: &'static mut [Header<'static>] =
                            unsafe { std::slice::from_raw_parts_mut(arr_ptr, cap) };
                        obs.hslice_before = Sl { ptr: arr_ptr as usize, len: cap };
                        resp = Response::new(arr);
                        let r = if entry == Entry::RespParse {
                            arm(&mut allocs, || resp.parse(buf))
                        } else {
                            arm(&mut allocs, || config.parse_response(&mut resp, buf))
                        };
                        st = conv(r);
                    }
                    obs.st = st;
                    obs.version = resp.version;
                    obs.code = resp.code;
                    obs.reason = resp.reason.map(|s| Sl::of(s.as_bytes()));
                    obs.reason_b = resp.reason.map(|s| s.as_bytes().to_vec());
                    collect(&*resp.headers, &mut obs);
                }
                Kind::Headers => {
                    let arr: &'static mut [Header<'static>] =
                        unsafe { std::slice::from_raw_parts_mut(arr_ptr, cap) };
                    match arm(&mut allocs, || httparse::parse_headers(buf, arr)) {
                        Ok(Status::Complete((n, hs))) => {
                            obs.st = St::Complete(n);
                            collect(hs, &mut obs);
                        }
                        Ok(Status::Partial) => obs.st = St::Partial,
                        Err(e) => obs.st = St::Err(ErrKind::from_real(e)),
                    }
                }
                Kind::Chunk => match arm(&mut allocs, || httparse::parse_chunk_size(buf)) {
                    Ok(Status::Complete((n, sz))) => {
                        obs.st = St::Complete(n);
                        obs.chunk_size = Some(sz);
                    }
                    Ok(Status::Partial) => obs.st = St::Partial,
                    Err(_) => obs.st = St::Err(ErrKind::InvalidChunkSize),
                },
            }
        }));
        IN_PARSER.with(|c| c.set(false));
        obs.counters = httparse::_verif::counters::snapshot();
        obs.allocs = allocs;
        obs.canary_ok = (0..64).all(|i| unsafe { *canary_ptr.add(i) } == 0xC3);
        if let Err(p) = r {
            let msg = if let Some(s) = p.downcast_ref::<&str>() {
                s.to_string()
            } else if let Some(s) = p.downcast_ref::<String>() {
                s.clone()
            } else {
                "non-string panic payload".to_string()
            };
            obs.st = St::Panic(msg);
        }
        obs.array_raw = read_raw(cap);
        clear_inflight();
        obs
    }
}

#[inline(always)]
fn arm<T>(acc: &mut u64, f: impl FnOnce() -> T) -> T {
    let (r, n) = crate::alloc::armed(f);
    *acc += n;
    r
}

fn conv(r: httparse::Result<usize>) -> St {
    match r {
        Ok(Status::Complete(n)) => St::Complete(n),
        Ok(Status::Partial) => St::Partial,
        Err(e) => St::Err(ErrKind::from_real(e)),
    }
}
