//! Reference model M: an independent, slow, index-based parser written from the
//! statements of C06–C10 and C14 and the crate documentation of each option.
//!
//! One rule gives the streaming semantics everywhere: the verdict is that of the first
//! decisive event in byte order; if the buffer ends before any decisive event, Partial.

use crate::real::{ErrKind, Kind, C_IGNORE_REQ, C_IGNORE_RESP, C_MULTILINE, C_MULTISPACE_REQ,
    C_MULTISPACE_RESP, C_SPACES_AFTER_NAME, C_SPACE_BEFORE_FIRST};

pub type Range = (usize, usize); // [start, end)

/// Set of acceptable error kinds (bitmask over ErrKind discriminants).
#[derive(Clone, Copy, PartialEq, Eq, Debug)]
pub struct KindSet(pub u16);

impl KindSet {
    pub fn one(k: ErrKind) -> KindSet {
        KindSet(1 << (k as u16))
    }
    pub fn with(self, k: ErrKind) -> KindSet {
        KindSet(self.0 | 1 << (k as u16))
    }
    pub fn has(self, k: ErrKind) -> bool {
        self.0 & (1 << (k as u16)) != 0
    }
    pub fn show(self) -> String {
        let all = [
            ErrKind::HeaderName, ErrKind::HeaderValue, ErrKind::NewLine, ErrKind::Status,
            ErrKind::Token, ErrKind::TooManyHeaders, ErrKind::Version, ErrKind::InvalidChunkSize,
        ];
        let v: Vec<&str> = all.iter().filter(|k| self.has(**k)).map(|k| k.name()).collect();
        v.join("|")
    }
}

#[derive(Clone, PartialEq, Eq, Debug)]
pub enum Verdict {
    Complete(usize),
    Partial,
    /// rejected; `at` = index of the first offending byte, `elem` = element name
    Err { kinds: KindSet, at: usize, elem: &'static str },
    /// the statements leave the choice open between Partial and this error
    PartialOrErr { kinds: KindSet, at: usize, elem: &'static str },
}

impl Verdict {
    pub fn show(&self) -> String {
        match self {
            Verdict::Complete(n) => format!("Complete({})", n),
            Verdict::Partial => "Partial".into(),
            Verdict::Err { kinds, at, elem } => format!("Err({}) at byte {} in {}", kinds.show(), at, elem),
            Verdict::PartialOrErr { kinds, at, elem } => {
                format!("Partial-or-Err({}) at byte {} in {}", kinds.show(), at, elem)
            }
        }
    }
    pub fn class(&self) -> &'static str {
        match self {
            Verdict::Complete(_) => "Complete",
            Verdict::Partial => "Partial",
            Verdict::Err { .. } => "Err",
            Verdict::PartialOrErr { .. } => "PartialOrErr",
        }
    }
}

#[derive(Clone, Copy, PartialEq, Eq, Debug, Default)]
pub struct HOpts {
    pub spaces_after_name: bool,
    pub multiline: bool,
    pub space_before_first: bool,
    pub ignore_invalid: bool,
}

impl HOpts {
    /// Header options seen by a message kind under the 7-bit config.
    pub fn for_kind(kind: Kind, cfg: u8) -> HOpts {
        match kind {
            Kind::Request => HOpts {
                spaces_after_name: false,
                multiline: false,
                space_before_first: cfg & C_SPACE_BEFORE_FIRST != 0,
                ignore_invalid: cfg & C_IGNORE_REQ != 0,
            },
            Kind::Response => HOpts {
                spaces_after_name: cfg & C_SPACES_AFTER_NAME != 0,
                multiline: cfg & C_MULTILINE != 0,
                space_before_first: cfg & C_SPACE_BEFORE_FIRST != 0,
                ignore_invalid: cfg & C_IGNORE_RESP != 0,
            },
            _ => HOpts::default(),
        }
    }
    pub fn bits(self) -> u8 {
        (self.spaces_after_name as u8)
            | (self.multiline as u8) << 1
            | (self.space_before_first as u8) << 2
            | (self.ignore_invalid as u8) << 3
    }
    pub fn from_bits(b: u8) -> HOpts {
        HOpts {
            spaces_after_name: b & 1 != 0,
            multiline: b & 2 != 0,
            space_before_first: b & 4 != 0,
            ignore_invalid: b & 8 != 0,
        }
    }
}

// lenient branches taken (for non-triviality accounting)
pub const L_SPACE_AFTER_NAME: u32 = 1;
pub const L_FOLD: u32 = 2;
pub const L_SPACE_BEFORE_FIRST: u32 = 4;
pub const L_IGNORED_LINE: u32 = 8;
pub const L_MULTISPACE: u32 = 16;

#[derive(Clone, Copy, PartialEq, Eq, Debug, PartialOrd, Ord)]
pub enum Stage {
    LeadingLines,
    Method,
    Target,
    Version,
    StartLineEnd,
    Code,
    Reason,
    Headers,
    Done,
}

#[derive(Clone, Debug)]
pub struct MOut {
    pub verdict: Verdict,
    pub method: Option<Range>,
    pub path: Option<Range>,
    pub version: Option<u8>,
    pub code: Option<u16>,
    /// Some(None) = the empty string (absent or contains obs-text)
    pub reason: Option<Option<Range>>,
    pub headers: Vec<(Range, Range)>,
    pub chunk: Option<u64>,
    pub lenient: u32,
    pub dropped_lines: usize,
    pub header_lines_done: usize,
    pub stage: Stage,
    /// offset where the header block begins (after the start line), if reached
    pub headers_start: Option<usize>,
}

impl MOut {
    fn new() -> MOut {
        MOut {
            verdict: Verdict::Partial,
            method: None,
            path: None,
            version: None,
            code: None,
            reason: None,
            headers: vec![],
            chunk: None,
            lenient: 0,
            dropped_lines: 0,
            header_lines_done: 0,
            stage: Stage::LeadingLines,
            headers_start: None,
        }
    }
}

// ---- byte classes, written from the statements (C05/C06/C07/C08/C12) ----

pub fn is_tchar(b: u8) -> bool {
    matches!(b,
        b'0'..=b'9' | b'a'..=b'z' | b'A'..=b'Z'
        | b'!' | b'#' | b'$' | b'%' | b'&' | b'\'' | b'*' | b'+' | b'-' | b'.'
        | b'^' | b'_' | b'`' | b'|' | b'~')
}

pub fn is_target_byte(b: u8) -> bool {
    matches!(b, 0x21..=0x7E | 0x80..=0xFF)
}

pub fn is_value_byte(b: u8) -> bool {
    matches!(b, 0x09 | 0x20..=0x7E | 0x80..=0xFF)
}

pub fn is_reason_byte(b: u8) -> bool {
    matches!(b, 0x09 | 0x20..=0x7E | 0x80..=0xFF)
}

fn is_ws(b: u8) -> bool {
    b == b' ' || b == b'\t'
}

enum Step {
    Ok(usize),
    Stop(Verdict),
}

fn err(k: ErrKind, at: usize, elem: &'static str) -> Verdict {
    Verdict::Err { kinds: KindSet::one(k), at, elem }
}

/// leading empty lines: (CRLF | LF)*, ends at the first other byte
fn leading_lines(b: &[u8], mut i: usize) -> Step {
    loop {
        match b.get(i) {
            None => return Step::Stop(Verdict::Partial),
            Some(b'\r') => match b.get(i + 1) {
                None => return Step::Stop(Verdict::Partial),
                Some(b'\n') => i += 2,
                Some(_) => return Step::Stop(err(ErrKind::NewLine, i, "leading-empty-line")),
            },
            Some(b'\n') => i += 1,
            Some(_) => return Step::Ok(i),
        }
    }
}

/// HTTP-version literal: "HTTP/1." then '0' or '1'
fn version(b: &[u8], i: usize, out: &mut MOut) -> Step {
    let lit = b"HTTP/1.";
    for (k, want) in lit.iter().enumerate() {
        match b.get(i + k) {
            None => return Step::Stop(Verdict::Partial),
            Some(c) if c == want => {}
            Some(_) => return Step::Stop(err(ErrKind::Version, i + k, "version")),
        }
    }
    match b.get(i + 7) {
        None => Step::Stop(Verdict::Partial),
        Some(b'0') => {
            out.version = Some(0);
            Step::Ok(i + 8)
        }
        Some(b'1') => {
            out.version = Some(1);
            Step::Ok(i + 8)
        }
        Some(_) => Step::Stop(err(ErrKind::Version, i + 7, "version")),
    }
}

fn skip_sp_run(b: &[u8], mut i: usize) -> Step {
    loop {
        match b.get(i) {
            None => return Step::Stop(Verdict::Partial),
            Some(b' ') => i += 1,
            Some(_) => return Step::Ok(i),
        }
    }
}

pub fn model_request(b: &[u8], cfg: u8, cap: usize) -> MOut {
    let mut out = MOut::new();
    let multi = cfg & C_MULTISPACE_REQ != 0;
    macro_rules! step {
        ($e:expr) => {
            match $e {
                Step::Ok(i) => i,
                Step::Stop(v) => {
                    out.verdict = v;
                    return out;
                }
            }
        };
    }
    let mut i = step!(leading_lines(b, 0));
    // method: 1*tchar SP
    out.stage = Stage::Method;
    let ms = i;
    loop {
        match b.get(i) {
            None => {
                out.verdict = Verdict::Partial;
                return out;
            }
            Some(&c) if is_tchar(c) => i += 1,
            Some(b' ') if i > ms => break,
            Some(_) => {
                out.verdict = err(ErrKind::Token, i, "method");
                return out;
            }
        }
    }
    out.method = Some((ms, i));
    i += 1; // the SP
    if multi {
        let j = step!(skip_sp_run(b, i));
        if j > i {
            out.lenient |= L_MULTISPACE;
        }
        i = j;
    }
    // target: 1*(0x21-0x7E / 0x80-0xFF) SP, valid UTF-8
    out.stage = Stage::Target;
    let ts = i;
    while i < b.len() && is_target_byte(b[i]) {
        i += 1;
    }
    match b.get(i) {
        None => {
            // Unterminated target. If what is there is *definitely* invalid UTF-8 the
            // statements allow either deferring (Partial) or rejecting now.
            out.verdict = match std::str::from_utf8(&b[ts..i]) {
                Err(e) if e.error_len().is_some() => Verdict::PartialOrErr {
                    kinds: KindSet::one(ErrKind::Token),
                    at: ts + e.valid_up_to(),
                    elem: "target-utf8",
                },
                _ => Verdict::Partial,
            };
            return out;
        }
        Some(b' ') if i > ts => {
            if let Err(e) = std::str::from_utf8(&b[ts..i]) {
                out.verdict = err(ErrKind::Token, ts + e.valid_up_to(), "target-utf8");
                return out;
            }
        }
        Some(_) => {
            out.verdict = err(ErrKind::Token, i, "target");
            return out;
        }
    }
    out.path = Some((ts, i));
    i += 1;
    if multi {
        let j = step!(skip_sp_run(b, i));
        if j > i {
            out.lenient |= L_MULTISPACE;
        }
        i = j;
    }
    out.stage = Stage::Version;
    i = step!(version(b, i, &mut out));
    // line end
    out.stage = Stage::StartLineEnd;
    match b.get(i) {
        None => return out,
        Some(b'\r') => match b.get(i + 1) {
            None => return out,
            Some(b'\n') => i += 2,
            Some(_) => {
                out.verdict = err(ErrKind::NewLine, i, "request-line-end");
                return out;
            }
        },
        Some(b'\n') => i += 1,
        Some(_) => {
            out.verdict = err(ErrKind::NewLine, i, "request-line-end");
            return out;
        }
    }
    out.stage = Stage::Headers;
    out.headers_start = Some(i);
    header_block(b, i, HOpts::for_kind(Kind::Request, cfg), cap, &mut out);
    out
}

pub fn model_response(b: &[u8], cfg: u8, cap: usize) -> MOut {
    let mut out = MOut::new();
    let multi = cfg & C_MULTISPACE_RESP != 0;
    macro_rules! step {
        ($e:expr) => {
            match $e {
                Step::Ok(i) => i,
                Step::Stop(v) => {
                    out.verdict = v;
                    return out;
                }
            }
        };
    }
    let mut i = step!(leading_lines(b, 0));
    out.stage = Stage::Version;
    i = step!(version(b, i, &mut out));
    match b.get(i) {
        None => return out,
        Some(b' ') => i += 1,
        Some(_) => {
            out.verdict = err(ErrKind::Version, i, "sp-after-version");
            return out;
        }
    }
    if multi {
        let j = step!(skip_sp_run(b, i));
        if j > i {
            out.lenient |= L_MULTISPACE;
        }
        i = j;
    }
    out.stage = Stage::Code;
    let mut code = 0u16;
    for k in 0..3 {
        match b.get(i + k) {
            None => return out,
            Some(&c) if c.is_ascii_digit() => code = code * 10 + (c - b'0') as u16,
            Some(_) => {
                out.verdict = err(ErrKind::Status, i + k, "status-code");
                return out;
            }
        }
    }
    out.code = Some(code);
    i += 3;
    out.stage = Stage::Reason;
    match b.get(i) {
        None => return out,
        Some(b'\r') => match b.get(i + 1) {
            None => return out,
            Some(b'\n') => {
                out.reason = Some(None);
                i += 2;
            }
            Some(_) => {
                out.verdict = err(ErrKind::Status, i, "status-line-end");
                return out;
            }
        },
        Some(b'\n') => {
            out.reason = Some(None);
            i += 1;
        }
        Some(b' ') => {
            i += 1;
            if multi {
                let j = step!(skip_sp_run(b, i));
                if j > i {
                    out.lenient |= L_MULTISPACE;
                }
                i = j;
            }
            let rs = i;
            let mut obs_text = false;
            let re;
            loop {
                match b.get(i) {
                    None => return out,
                    Some(b'\r') => match b.get(i + 1) {
                        None => return out,
                        Some(b'\n') => {
                            re = i;
                            i += 2;
                            break;
                        }
                        Some(_) => {
                            out.verdict = err(ErrKind::Status, i, "reason");
                            return out;
                        }
                    },
                    Some(b'\n') => {
                        re = i;
                        i += 1;
                        break;
                    }
                    Some(&c) if is_reason_byte(c) => {
                        if c >= 0x80 {
                            obs_text = true;
                        }
                        i += 1;
                    }
                    Some(_) => {
                        out.verdict = err(ErrKind::Status, i, "reason");
                        return out;
                    }
                }
            }
            out.reason = Some(if obs_text || re == rs { None } else { Some((rs, re)) });
        }
        Some(_) => {
            out.verdict = err(ErrKind::Status, i, "after-status-code");
            return out;
        }
    }
    out.stage = Stage::Headers;
    out.headers_start = Some(i);
    header_block(b, i, HOpts::for_kind(Kind::Response, cfg), cap, &mut out);
    out
}

pub fn model_headers(b: &[u8], opts: HOpts, cap: usize) -> MOut {
    let mut out = MOut::new();
    out.stage = Stage::Headers;
    out.headers_start = Some(0);
    header_block(b, 0, opts, cap, &mut out);
    out
}

/// What happens at an offending byte `at` of an element of kind `k`.
enum Bad {
    Fatal(Verdict),
    /// line dropped; resume at this index
    Resume(usize),
}

fn offending(b: &[u8], at: usize, k: ErrKind, colon_seen_at: Option<usize>, opts: HOpts,
             elem: &'static str) -> Bad {
    if !opts.ignore_invalid {
        return Bad::Fatal(err(k, at, elem));
    }
    // drop through the line end; NUL or a CR not followed by LF is still fatal.
    // The statements do not say which of HeaderName/HeaderValue names such a late
    // fatal byte: either the element where the line first went wrong, or the element
    // by position of the fatal byte relative to the colon.
    let mut q = at;
    loop {
        let by_pos = |q: usize| -> ErrKind {
            match colon_seen_at {
                Some(c) if q > c => ErrKind::HeaderValue,
                Some(_) => ErrKind::HeaderName,
                None => {
                    // no colon seen before the offending byte: is there one between?
                    if b[at..q].contains(&b':') { ErrKind::HeaderValue } else { ErrKind::HeaderName }
                }
            }
        };
        match b.get(q) {
            None => return Bad::Fatal(Verdict::Partial),
            Some(b'\r') => match b.get(q + 1) {
                None => return Bad::Fatal(Verdict::Partial),
                Some(b'\n') => return Bad::Resume(q + 2),
                Some(_) => {
                    return Bad::Fatal(Verdict::Err {
                        kinds: KindSet::one(k).with(by_pos(q)),
                        at: q,
                        elem: "bare-CR-in-dropped-line",
                    })
                }
            },
            Some(b'\n') => return Bad::Resume(q + 1),
            Some(0) => {
                return Bad::Fatal(Verdict::Err {
                    kinds: KindSet::one(k).with(by_pos(q)),
                    at: q,
                    elem: "NUL-in-dropped-line",
                })
            }
            Some(_) => q += 1,
        }
    }
}

fn header_block(b: &[u8], start: usize, opts: HOpts, cap: usize, out: &mut MOut) {
    let n = b.len();
    let mut i = start;
    'lines: loop {
        macro_rules! bad {
            ($at:expr, $k:expr, $colon:expr, $elem:expr) => {
                match offending(b, $at, $k, $colon, opts, $elem) {
                    Bad::Fatal(v) => {
                        out.verdict = v;
                        return;
                    }
                    Bad::Resume(j) => {
                        out.lenient |= L_IGNORED_LINE;
                        out.dropped_lines += 1;
                        i = j;
                        continue 'lines;
                    }
                }
            };
        }
        // --- at a line start ---
        if i >= n {
            out.verdict = Verdict::Partial;
            return;
        }
        let c = b[i];
        if c == b'\r' {
            if i + 1 >= n {
                out.verdict = Verdict::Partial;
            } else if b[i + 1] == b'\n' {
                out.verdict = Verdict::Complete(i + 2);
                out.stage = Stage::Done;
            } else {
                out.verdict = err(ErrKind::NewLine, i, "head-terminator");
            }
            return;
        }
        if c == b'\n' {
            out.verdict = Verdict::Complete(i + 1);
            out.stage = Stage::Done;
            return;
        }
        if !is_tchar(c) {
            if opts.space_before_first && out.headers.is_empty() && is_ws(c) {
                while i < n && is_ws(b[i]) {
                    i += 1;
                }
                out.lenient |= L_SPACE_BEFORE_FIRST;
                continue 'lines;
            }
            bad!(i, ErrKind::HeaderName, None, "line-start");
        }
        // --- name ---
        let ns = i;
        let mut j = i;
        while j < n && is_tchar(b[j]) {
            j += 1;
        }
        if j >= n {
            out.verdict = Verdict::Partial;
            return;
        }
        let ne = j;
        let mut k = j;
        if opts.spaces_after_name && is_ws(b[k]) {
            while k < n && is_ws(b[k]) {
                k += 1;
            }
            if k >= n {
                out.verdict = Verdict::Partial;
                return;
            }
            if b[k] == b':' {
                out.lenient |= L_SPACE_AFTER_NAME;
            }
        }
        if b[k] != b':' {
            bad!(k, ErrKind::HeaderName, None, "name-or-colon");
        }
        let colon = k;
        // --- value: OWS value OWS EOL, with continuation lines when folding ---
        let mut v = colon + 1;
        let mut value: Option<Range> = None; // raw, untrimmed
        let line_end; // index just past the EOL of the (logical) header
        // leading whitespace (and, when folding, whitespace-only first lines)
        loop {
            while v < n && is_ws(b[v]) {
                v += 1;
            }
            if v >= n {
                out.verdict = Verdict::Partial;
                return;
            }
            let c = b[v];
            if c != b'\r' && c != b'\n' {
                if is_value_byte(c) {
                    break; // the value begins at v
                }
                bad!(v, ErrKind::HeaderValue, Some(colon), "value-start");
            }
            let eol_end = if c == b'\r' {
                if v + 1 >= n {
                    out.verdict = Verdict::Partial;
                    return;
                }
                if b[v + 1] != b'\n' {
                    // a CR not followed by LF directly in value position is fatal
                    // under every configuration
                    out.verdict = err(ErrKind::HeaderValue, v, "bare-CR-in-value");
                    return;
                }
                v + 2
            } else {
                v + 1
            };
            if opts.multiline {
                if eol_end >= n {
                    out.verdict = Verdict::Partial;
                    return;
                }
                if is_ws(b[eol_end]) {
                    out.lenient |= L_FOLD;
                    v = eol_end;
                    continue;
                }
            }
            // empty value
            value = Some((v, v));
            v = eol_end;
            break;
        }
        if let Some(_) = value {
            line_end = v;
        } else {
            let vs = v;
            let mut p = v;
            loop {
                while p < n && is_value_byte(b[p]) {
                    p += 1;
                }
                if p >= n {
                    out.verdict = Verdict::Partial;
                    return;
                }
                let c = b[p];
                let eol_end;
                if c == b'\r' {
                    if p + 1 >= n {
                        out.verdict = Verdict::Partial;
                        return;
                    }
                    if b[p + 1] != b'\n' {
                        out.verdict = err(ErrKind::HeaderValue, p, "bare-CR-in-value");
                        return;
                    }
                    eol_end = p + 2;
                } else if c == b'\n' {
                    eol_end = p + 1;
                } else {
                    bad!(p, ErrKind::HeaderValue, Some(colon), "value");
                }
                if opts.multiline {
                    if eol_end >= n {
                        out.verdict = Verdict::Partial;
                        return;
                    }
                    if is_ws(b[eol_end]) {
                        out.lenient |= L_FOLD;
                        p = eol_end;
                        continue;
                    }
                }
                // trim: strip SP/HTAB and line breaks from the end
                let mut e = p;
                while e > vs && matches!(b[e - 1], b' ' | b'\t' | b'\r' | b'\n') {
                    e -= 1;
                }
                value = Some((vs, e));
                line_end = eol_end;
                break;
            }
        }
        // --- the header line is complete: capacity ---
        out.header_lines_done += 1;
        if out.headers.len() >= cap {
            out.verdict = Verdict::Err {
                kinds: KindSet::one(ErrKind::TooManyHeaders),
                at: ns,
                elem: "surplus-header",
            };
            return;
        }
        out.headers.push(((ns, ne), value.unwrap()));
        i = line_end;
    }
}

/// C09: 1–16 hex digits, optional SP/HTAB, optional ';' + any bytes except CR, CRLF.
pub fn model_chunk(b: &[u8]) -> MOut {
    let mut out = MOut::new();
    let bad = |at: usize, elem: &'static str| err(ErrKind::InvalidChunkSize, at, elem);
    let mut i = 0;
    let mut digits = 0;
    let mut size: u128 = 0;
    // digits
    loop {
        match b.get(i) {
            None => return out,
            Some(&c) if c.is_ascii_hexdigit() => {
                digits += 1;
                if digits > 16 {
                    out.verdict = bad(i, "17th-digit");
                    return out;
                }
                size = size * 16 + (c as char).to_digit(16).unwrap() as u128;
                i += 1;
            }
            Some(_) => break,
        }
    }
    if digits == 0 {
        out.verdict = bad(i, "no-digit");
        return out;
    }
    // optional whitespace
    while i < b.len() && is_ws(b[i]) {
        i += 1;
    }
    // optional extension, then CRLF
    let mut in_ext = false;
    loop {
        match b.get(i) {
            None => return out,
            Some(b'\r') => match b.get(i + 1) {
                None => return out,
                Some(b'\n') => {
                    assert!(size <= u64::MAX as u128);
                    out.verdict = Verdict::Complete(i + 2);
                    out.chunk = Some(size as u64);
                    out.stage = Stage::Done;
                    return out;
                }
                Some(_) => {
                    out.verdict = bad(i, "bare-CR");
                    return out;
                }
            },
            Some(b';') if !in_ext => {
                in_ext = true;
                i += 1;
            }
            Some(_) if in_ext => i += 1,
            Some(_) => {
                // digit after whitespace, bare LF, any other byte before the extension
                out.verdict = bad(i, "before-extension");
                return out;
            }
        }
    }
}

pub fn model(kind: Kind, b: &[u8], cfg: u8, cap: usize) -> MOut {
    match kind {
        Kind::Request => model_request(b, cfg, cap),
        Kind::Response => model_response(b, cfg, cap),
        Kind::Headers => model_headers(b, HOpts::default(), cap),
        Kind::Chunk => model_chunk(b),
    }
}
