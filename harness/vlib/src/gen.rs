//! Generators. G1: grammar-derived messages with every syntactic freedom an explicit
//! choice, plus mutations. G2: class-alphabet strings (random and bounded-exhaustive).
//! G3/G4 (byte sweeps, prefix closure) are loops in the properties that use them.

use crate::choice::Choice;
use crate::engine::Lcg;
use crate::real::Kind;

/// Knobs a property can turn.
#[derive(Clone, Copy, Debug)]
pub struct Profile {
    /// 0..=256: probability (x/256) that 1..3 mutations are applied
    pub mutate: u32,
    /// weight of fold continuation lines per header (x/256)
    pub fold: u32,
    /// weight of whitespace oddities (before colon / at line start) per header (x/256)
    pub odd_ws: u32,
    /// weight of invalid lines (missing colon, bad byte) per header (x/256)
    pub bad_line: u32,
    /// probability of truncating the message at a random point (x/256)
    pub truncate: u32,
    /// probability of multi-space start-line delimiters (x/256)
    pub multispace: u32,
    /// allow huge values / many headers
    pub big: bool,
    /// max header lines in the common case
    pub max_headers: usize,
}

impl Profile {
    pub const DEFAULT: Profile = Profile {
        mutate: 96,
        fold: 24,
        odd_ws: 24,
        bad_line: 20,
        truncate: 48,
        multispace: 40,
        big: false,
        max_headers: 8,
    };
    pub const CLEAN: Profile = Profile {
        mutate: 24,
        fold: 0,
        odd_ws: 0,
        bad_line: 0,
        truncate: 8,
        multispace: 0,
        big: false,
        max_headers: 8,
    };
    pub const LENIENT: Profile = Profile {
        mutate: 64,
        fold: 90,
        odd_ws: 80,
        bad_line: 70,
        truncate: 40,
        multispace: 60,
        big: false,
        max_headers: 6,
    };
}

pub const INTERESTING: [u8; 24] = [
    0x00, 0x01, b'\t', b'\n', 0x0b, b'\r', b' ', b':', b';', 0x7f, 0x80, 0xc3, 0xff, b'a', b'!',
    b'~', 0x1f, b'"', b'(', b'/', b'0', b'H', 0xa9, 0xe2,
];

pub const METHODS: [&[u8]; 18] = [
    b"GET", b"POST", b"PUT", b"DELETE", b"OPTIONS", b"POS", b"POSTX", b"GETX", b"G", b"PATCH",
    b"M-SEARCH", b"get", b"P", b"!#$%&'*+-.^_`|~", b"HEAD", b"PRI", b"CONNECT", b"TRACE",
];

pub const VERSIONS: [&[u8]; 12] = [
    b"HTTP/1.1", b"HTTP/1.0", b"HTTP/1.2", b"HTTP/2.0", b"HTTP/1.", b"HTTP/1", b"HTTP/", b"HTTX/1.1",
    b"http/1.1", b"HTTP/1.10", b"HTTP/11", b"",
];

pub const NAMES: [&[u8]; 12] = [
    b"Host", b"A", b"Content-Length", b"X-Long-Header-Name-For-Lane-Phases-0123456789", b"Accept",
    b"x", b"Set-Cookie", b"a-b", b"User-Agent", b"!#$%&'*+-.^_`|~", b"Transfer-Encoding", b"E",
];

// ---------------------------------------------------------------------------------
// auto-dictionary: string / byte-string literals of the source under test
// ---------------------------------------------------------------------------------

/// Literals (2..=64 bytes) found in the non-test, non-comment code of /repo/src. A branch
/// guarded by a magic literal ("ICY ", an HTTP/2 preface, a method name) is invisible to a
/// grammar; its literal is in the source, so the generators splice these tokens in.
pub fn dict() -> &'static Vec<Vec<u8>> {
    static D: std::sync::OnceLock<Vec<Vec<u8>>> = std::sync::OnceLock::new();
    D.get_or_init(|| {
        let root = std::env::var("VERIF_REPO").unwrap_or_else(|_| "/repo".to_string());
        let mut out: Vec<Vec<u8>> = vec![];
        for f in ["src/lib.rs", "src/iter.rs", "src/macros.rs", "src/simd/mod.rs", "src/simd/swar.rs", "src/simd/sse42.rs", "src/simd/avx2.rs", "src/simd/runtime.rs", "src/simd/neon.rs"] {
            if let Ok(s) = std::fs::read_to_string(format!("{}/{}", root, f)) {
                // drop the unit-test module / test functions at the end of the file
                let cut = s.find("#[cfg(test)]\nmod tests").or_else(|| s.find("#[test]")).unwrap_or(s.len());
                for t in extract_literals(&s[..cut]) {
                    if (2..=64).contains(&t.len()) && !out.contains(&t) {
                        out.push(t);
                    }
                }
            }
        }
        // description strings of the Error type are not protocol tokens, but harmless
        out.truncate(96);
        // byte strings assembled from the numeric constants that one function compares bytes
        // with (a protocol sniffer such as `first == 0x16 && rest[0] == 0x03 && rest[4] == 0x01`)
        for f in ["src/lib.rs", "src/iter.rs", "src/macros.rs"] {
            if let Ok(s) = std::fs::read_to_string(format!("{}/{}", root, f)) {
                let cut = s.find("#[cfg(test)]\nmod tests").or_else(|| s.find("#[test]")).unwrap_or(s.len());
                for t in cmp_const_tokens(&s[..cut]) {
                    if !out.contains(&t) && out.len() < 160 {
                        out.push(t);
                    }
                }
            }
        }
        out
    })
}

/// For every function body that compares bytes with >= 3 numeric / byte-literal constants:
/// candidate byte strings that satisfy those comparisons, placing un-indexed comparisons
/// first (in source order) and `x[i] == c` at offset i (both directly and shifted by the
/// number of un-indexed ones).
pub fn cmp_const_tokens(src: &str) -> Vec<Vec<u8>> {
    let mut out = vec![];
    // strip line comments
    let code: String = src.lines().map(|l| l.split("//").next().unwrap_or("")).collect::<Vec<_>>().join("\n");
    for body in code.split("\nfn ").chain(code.split(" fn ")) {
        let b = body.as_bytes();
        let mut items: Vec<(Option<usize>, u8)> = vec![];
        let mut i = 0;
        while i + 1 < b.len() {
            let op2 = &b[i..i + 2];
            let is_cmp = op2 == b"==" || op2 == b"<=" || op2 == b">=" || op2 == b"!=";
            if !is_cmp {
                i += 1;
                continue;
            }
            // literal to the right
            let mut j = i + 2;
            while j < b.len() && b[j] == b' ' {
                j += 1;
            }
            let rest = &body[j..];
            let val: Option<u8> = if let Some(h) = rest.strip_prefix("0x") {
                let d: String = h.chars().take_while(|c| c.is_ascii_hexdigit()).collect();
                u8::from_str_radix(&d, 16).ok()
            } else if rest.starts_with("b'") && rest.len() >= 4 && rest.as_bytes()[3] == b'\'' {
                Some(rest.as_bytes()[2])
            } else {
                let d: String = rest.chars().take_while(|c| c.is_ascii_digit()).collect();
                if d.is_empty() { None } else { d.parse::<u8>().ok() }
            };
            // index to the left:  ident[IDX] <op>
            let mut k = i;
            while k > 0 && b[k - 1] == b' ' {
                k -= 1;
            }
            if k > 0 && b[k - 1] == b')' {
                // a call result (`x.len() >= 5`) is not a byte of the input
                i += 2;
                continue;
            }
            let idx: Option<usize> = if k > 0 && b[k - 1] == b']' {
                let open = body[..k - 1].rfind('[');
                open.and_then(|o| body[o + 1..k - 1].trim().parse::<usize>().ok())
            } else {
                None
            };
            if let Some(v) = val {
                let v = if op2 == b"!=" { v.wrapping_add(1) } else { v };
                items.push((idx, v));
            }
            i += 2;
        }
        if items.len() < 3 || items.len() > 24 {
            continue;
        }
        let n_plain = items.iter().filter(|x| x.0.is_none()).count();
        for shift in [n_plain, 0usize] {
            let mut t = vec![b'a'; 0];
            let mut p = 0;
            for (idx, v) in &items {
                let at = match idx {
                    None => {
                        let a = p;
                        p += 1;
                        a
                    }
                    Some(ix) => shift + ix,
                };
                if at >= 32 {
                    continue;
                }
                if t.len() <= at {
                    t.resize(at + 1, b'a');
                }
                t[at] = *v;
            }
            if t.len() >= 3 && !out.contains(&t) {
                out.push(t);
            }
        }
    }
    out.truncate(64);
    out
}

pub fn extract_literals(src: &str) -> Vec<Vec<u8>> {
    let b = src.as_bytes();
    let mut out = vec![];
    let mut i = 0;
    while i < b.len() {
        match b[i] {
            b'/' if b.get(i + 1) == Some(&b'/') => {
                while i < b.len() && b[i] != b'\n' {
                    i += 1;
                }
            }
            b'/' if b.get(i + 1) == Some(&b'*') => {
                i += 2;
                while i + 1 < b.len() && !(b[i] == b'*' && b[i + 1] == b'/') {
                    i += 1;
                }
                i += 2;
            }
            b'\'' => {
                // char literal or lifetime
                if b.get(i + 1) == Some(&b'\\') {
                    // escaped char: skip to the closing quote
                    i += 2;
                    while i < b.len() && b[i] != b'\'' {
                        i += 1;
                    }
                    i += 1;
                } else if b.get(i + 2) == Some(&b'\'') {
                    i += 3;
                } else {
                    i += 1; // lifetime
                }
            }
            b'"' => {
                i += 1;
                let mut lit = vec![];
                while i < b.len() && b[i] != b'"' {
                    if b[i] == b'\\' && i + 1 < b.len() {
                        i += 1;
                        match b[i] {
                            b'n' => lit.push(b'\n'),
                            b'r' => lit.push(b'\r'),
                            b't' => lit.push(b'\t'),
                            b'0' => lit.push(0),
                            b'x' => {
                                let h = std::str::from_utf8(&b[i + 1..(i + 3).min(b.len())]).unwrap_or("0");
                                lit.push(u8::from_str_radix(h, 16).unwrap_or(0));
                                i += 2;
                            }
                            b'\n' => {
                                // line continuation: skip leading whitespace of the next line
                                while i + 1 < b.len() && (b[i + 1] == b' ' || b[i + 1] == b'\t') {
                                    i += 1;
                                }
                            }
                            c => lit.push(c),
                        }
                    } else {
                        lit.push(b[i]);
                    }
                    i += 1;
                }
                i += 1;
                out.push(lit);
            }
            _ => i += 1,
        }
    }
    out
}

/// a dictionary token, or `fallback` when the dictionary is empty
pub fn dict_token<'a>(u: &mut Choice, fallback: &'a [u8]) -> &'a [u8]
where
    'static: 'a,
{
    let d = dict();
    if d.is_empty() {
        fallback
    } else {
        &d[u.below(d.len())]
    }
}

fn eol(u: &mut Choice, out: &mut Vec<u8>) {
    match u.weighted(&[200, 48, 4, 4]) {
        0 => out.extend_from_slice(b"\r\n"),
        1 => out.push(b'\n'),
        2 => out.push(b'\r'),
        _ => {}
    }
}

/// Fill `len` bytes of a given style. Styles are class-aware so that most fills are
/// valid in their element; the rest exercise rejection.
/// 0: lowercase letters; 1: printable with spaces; 2: printable + HTAB; 3: with obs-text
/// (valid UTF-8 pairs); 4: bytes >= 0x80 arbitrary; 5: boundary bytes 0x21/0x7e/0x80/0xff;
/// 6: one interesting byte planted in letters; 7: arbitrary bytes.
pub fn fill(out: &mut Vec<u8>, len: usize, style: usize, seed: u16) {
    let mut r = Lcg((seed as u64).wrapping_mul(0x9E3779B97F4A7C15).wrapping_add(style as u64));
    match style {
        0 => {
            for i in 0..len {
                out.push(b'a' + ((i + seed as usize) % 26) as u8);
            }
        }
        1 => {
            for _ in 0..len {
                out.push(0x20 + r.below(0x5f) as u8);
            }
        }
        2 => {
            for _ in 0..len {
                let x = r.below(0x60);
                out.push(if x == 0x5f { b'\t' } else { 0x20 + x as u8 });
            }
        }
        3 => {
            let mut i = 0;
            while i < len {
                if i + 1 < len && r.below(4) == 0 {
                    out.push(0xc3);
                    out.push(0x80 + r.below(0x40) as u8);
                    i += 2;
                } else {
                    out.push(0x21 + r.below(0x5e) as u8);
                    i += 1;
                }
            }
        }
        4 => {
            for _ in 0..len {
                out.push(0x80 + r.below(0x80) as u8);
            }
        }
        5 => {
            const B: [u8; 6] = [0x21, 0x7e, 0x80, 0xff, b'a', b'0'];
            for _ in 0..len {
                out.push(B[r.below(6)]);
            }
        }
        6 => {
            let at = if len > 0 { r.below(len) } else { 0 };
            let bad = INTERESTING[r.below(INTERESTING.len())];
            for i in 0..len {
                out.push(if i == at { bad } else { b'a' + (i % 26) as u8 });
            }
        }
        _ => {
            for _ in 0..len {
                out.push(r.below(256) as u8);
            }
        }
    }
}

/// length distribution: mostly uniform over 0..=70 (all lane phases), a tail to 300,
/// rarely large.
fn field_len(u: &mut Choice, big: bool) -> usize {
    match u.weighted(&[170, 56, 26, if big { 4 } else { 0 }]) {
        0 => u.range(0, 24),
        1 => u.range(0, 70),
        2 => u.range(71, 400),
        _ => u.range(301, 70000),
    }
}

fn seed16(u: &mut Choice) -> u16 {
    (u.byte() as u16) << 8 | u.byte() as u16
}

fn sp_run(u: &mut Choice, p: &Profile, out: &mut Vec<u8>) {
    if u.chance(p.multispace) {
        let n = u.range(0, 4);
        for _ in 0..n {
            out.push(b' ');
        }
        if u.chance(16) {
            out.push(b'\t');
        }
    } else {
        out.push(b' ');
    }
}

pub fn request_line(u: &mut Choice, p: &Profile, out: &mut Vec<u8>) {
    // method
    match u.weighted(&[120, 60, 50, 16, 10]) {
        0 => out.extend_from_slice(b"GET"),
        1 => out.extend_from_slice(b"POST"),
        2 => out.extend_from_slice(u.pick_bytes(&METHODS)),
        4 => {
            let t = dict_token(u, b"GET");
            out.extend_from_slice(t);
            if t.ends_with(b"\n") {
                return; // a whole-line literal (e.g. a connection preface) stands alone
            }
        }
        _ => {
            let n = u.range(0, 12);
            let s = seed16(u);
            let style = *u.pick(&[0usize, 0, 6, 7]);
            fill(out, n, style, s);
        }
    }
    sp_run(u, p, out);
    // target
    match u.weighted(&[100, 60, 96]) {
        0 => out.push(b'/'),
        1 => out.extend_from_slice(u.pick_bytes(&[
            &b"/index.html"[..],
            b"/a/b/c?x=1&y=2",
            b"*",
            b"http://example.com:8080/p?q#f",
            b"/caf\xc3\xa9",
            b"/\xe2\x82\xac",
            b"/\xff",
            b"/\xc3",
            b"/a\x7fb",
            b"/wp-content/uploads/2010/03/hello-kitty-darth-vader-pink.jpg",
        ])),
        _ => {
            let n = field_len(u, p.big).max(1);
            let s = seed16(u);
            let style = *u.pick(&[0usize, 0, 3, 5, 6, 4, 7, 1]);
            fill(out, n, style, s);
        }
    }
    sp_run(u, p, out);
    // version
    match u.weighted(&[190, 40, 20, 6]) {
        0 => out.extend_from_slice(b"HTTP/1.1"),
        1 => out.extend_from_slice(b"HTTP/1.0"),
        2 => out.extend_from_slice(u.pick_bytes(&VERSIONS)),
        _ => out.extend_from_slice(dict_token(u, b"HTTP/1.1")),
    }
    eol(u, out);
}

pub fn status_line(u: &mut Choice, p: &Profile, out: &mut Vec<u8>) {
    match u.weighted(&[190, 40, 16, 10]) {
        0 => out.extend_from_slice(b"HTTP/1.1"),
        1 => out.extend_from_slice(b"HTTP/1.0"),
        2 => out.extend_from_slice(u.pick_bytes(&VERSIONS)),
        _ => {
            let t = dict_token(u, b"HTTP/1.1");
            out.extend_from_slice(t);
            if t.ends_with(b" ") {
                out.pop(); // the delimiter is added below
            }
        }
    }
    sp_run(u, p, out);
    // code
    match u.weighted(&[120, 100, 36]) {
        0 => out.extend_from_slice(b"200"),
        1 => {
            let c = u.below(1000);
            out.extend_from_slice(format!("{:03}", c).as_bytes());
        }
        _ => out.extend_from_slice(u.pick_bytes(&[
            &b"20"[..], b"2000", b"2", b"", b"+20", b"2 0", b"20a", b"a00", b"\xb2\xb0\xb0", b"-00",
        ])),
    }
    // reason
    match u.weighted(&[100, 60, 60, 36]) {
        0 => out.extend_from_slice(b" OK"),
        1 => {} // no reason, no SP
        2 => {
            sp_run(u, p, out);
            out.extend_from_slice(u.pick_bytes(&[
                &b""[..], b"Not Found", b"OK\tfine", b"X\xffZ", b"a\x7fb", b"a\x00b", b" lead", b"trail ",
                b"Internal Server Error",
            ]));
        }
        _ => {
            sp_run(u, p, out);
            let n = field_len(u, p.big);
            let s = seed16(u);
            let style = *u.pick(&[0usize, 1, 2, 3, 6, 7]);
            fill(out, n, style, s);
        }
    }
    eol(u, out);
}

fn ows(u: &mut Choice, out: &mut Vec<u8>) {
    match u.weighted(&[140, 70, 20, 20, 6]) {
        0 => out.push(b' '),
        1 => {}
        2 => out.push(b'\t'),
        3 => {
            let n = u.range(0, 5);
            for _ in 0..n {
                out.push(if u.chance(80) { b'\t' } else { b' ' });
            }
        }
        _ => {
            // long runs (beyond any 16/32/64-byte window), tabs sprinkled by a pattern
            let n = u.range(6, 200);
            let pat = u.byte();
            for i in 0..n {
                out.push(if pat & 1 == 1 && (i as u8).wrapping_mul(pat | 1) % 7 == 0 { b'\t' } else { b' ' });
            }
        }
    }
}

/// One header line (possibly with continuation lines); returns nothing — the model and
/// the real parser are the judges of what it is.
pub fn header_line(u: &mut Choice, p: &Profile, out: &mut Vec<u8>) {
    // invalid shapes
    if u.chance(p.bad_line) {
        match u.below(8) {
            0 => out.extend_from_slice(b"missing colon"),
            1 => out.extend_from_slice(b": empty-name"),
            2 => out.extend_from_slice(b"bad name: v"),
            3 => out.extend_from_slice(b"na\x00me: v"),
            4 => out.extend_from_slice(b"name: v\x00w"),
            5 => out.extend_from_slice(b"name: v\rw"),
            6 => out.extend_from_slice(b"n\x7f: v"),
            _ => {
                let n = u.range(0, 30);
                let s = seed16(u);
                fill(out, n, 7, s);
            }
        }
        eol(u, out);
        return;
    }
    if u.chance(p.odd_ws) {
        // whitespace at line start
        let n = u.range(1, 3);
        for _ in 0..n {
            out.push(if u.chance(64) { b'\t' } else { b' ' });
        }
    }
    // name
    match u.weighted(&[170, 60, 26]) {
        0 => out.extend_from_slice(u.pick_bytes(&NAMES)),
        1 => {
            let n = u.range(1, 40);
            let s = seed16(u);
            fill(out, n, 0, s);
        }
        _ => {
            let n = u.range(0, 20);
            let s = seed16(u);
            let style = *u.pick(&[6usize, 7, 5]);
            fill(out, n, style, s);
        }
    }
    if u.chance(p.odd_ws) {
        let n = u.range(1, 3);
        for _ in 0..n {
            out.push(if u.chance(64) { b'\t' } else { b' ' });
        }
    }
    if !u.chance(6) {
        out.push(b':');
    }
    ows(u, out);
    let value = |u: &mut Choice, out: &mut Vec<u8>| {
        let n = field_len(u, p.big);
        let s = seed16(u);
        let style = *u.pick(&[0usize, 1, 1, 2, 3, 5, 4, 6, 7, 0]);
        fill(out, n, style, s);
    };
    if !u.chance(24) {
        value(u, out);
    }
    if u.chance(60) {
        ows(u, out);
    }
    eol(u, out);
    // continuation lines
    if u.chance(p.fold) {
        let n = u.range(1, 3);
        for _ in 0..n {
            out.push(if u.chance(64) { b'\t' } else { b' ' });
            if u.chance(40) {
                ows(u, out);
            }
            if !u.chance(50) {
                value(u, out);
            }
            if u.chance(40) {
                ows(u, out);
            }
            eol(u, out);
        }
    }
}

pub fn header_block(u: &mut Choice, p: &Profile, out: &mut Vec<u8>) -> usize {
    let n = match u.weighted(&[40, 150, 60, 4, if p.big { 6 } else { 0 }]) {
        0 => 0,
        1 => u.range(1, 3),
        2 => u.range(0, p.max_headers),
        3 => u.range(9, 40),
        _ => u.range(9, 300),
    };
    for _ in 0..n {
        header_line(u, p, out);
    }
    // terminator
    match u.weighted(&[190, 40, 12, 8, 6]) {
        0 => out.extend_from_slice(b"\r\n"),
        1 => out.push(b'\n'),
        2 => {}
        3 => out.push(b'\r'),
        _ => out.extend_from_slice(b"\r\r\n"),
    }
    n
}

fn body(u: &mut Choice, out: &mut Vec<u8>) {
    match u.weighted(&[150, 40, 30, 36]) {
        0 => {}
        1 => out.extend_from_slice(b"body bytes"),
        2 => out.extend_from_slice(b"x\r\n\r\nA: b\r\n\r\n\n\n"),
        _ => {
            let n = u.range(0, 40);
            let s = seed16(u);
            fill(out, n, 7, s);
        }
    }
}

pub fn chunk_line(u: &mut Choice, out: &mut Vec<u8>) {
    // digits
    let nd = match u.weighted(&[150, 60, 46]) {
        0 => u.range(1, 6),
        1 => u.range(0, 20),
        _ => u.range(14, 18),
    };
    let s = seed16(u);
    let mut r = Lcg(s as u64 + 77);
    let pat = u.below(6);
    for i in 0..nd {
        let d = match pat {
            0 => b"0123456789abcdefABCDEF"[r.below(22)],
            1 => b'f',
            2 => b'0',
            3 => if i == 0 { b'1' } else { b'0' },
            4 => if i == 0 { b'7' } else { b'F' },
            _ => if i == 0 { b'8' } else { b'0' },
        };
        out.push(d);
    }
    if u.chance(40) {
        out.push(*u.pick(&[b'g', b'x', b'-', b'+', 0x00, 0x80, b'G', b'/', b':', b'@', b'`']));
    }
    // whitespace
    if u.chance(70) {
        let n = u.range(1, 3);
        for _ in 0..n {
            out.push(if u.chance(80) { b'\t' } else { b' ' });
        }
        if u.chance(30) {
            out.push(b'1');
        }
    }
    // extension
    if u.chance(100) {
        out.push(b';');
        let n = match u.weighted(&[200, 50, 6]) {
            0 => u.range(0, 12),
            1 => u.range(0, 80),
            _ => u.range(80, 70000),
        };
        let s = seed16(u);
        let style = *u.pick(&[1usize, 0, 7, 6, 2]);
        fill(out, n, style, s);
    }
    match u.weighted(&[190, 20, 20, 26]) {
        0 => out.extend_from_slice(b"\r\n"),
        1 => out.push(b'\n'),
        2 => out.push(b'\r'),
        _ => {}
    }
    if u.chance(60) {
        out.extend_from_slice(b"data\r\n0\r\n\r\n");
    }
}

pub fn mutate(u: &mut Choice, buf: &mut Vec<u8>) {
    let n = u.range(1, 3);
    for _ in 0..n {
        let len = buf.len();
        let byte = if u.chance(200) { *u.pick(&INTERESTING) } else { u.byte() };
        match u.below(8) {
            0 | 1 => {
                if len > 0 {
                    let at = u.below(len);
                    buf[at] = byte;
                }
            }
            6 => {
                // overwrite with a dictionary token (mostly at a line start)
                let t = dict_token(u, b"HTTP/1.1").to_vec();
                let at = if u.chance(160) {
                    let starts: Vec<usize> = std::iter::once(0).chain(buf.iter().enumerate().filter(|(_, &b)| b == b'\n').map(|(i, _)| i + 1)).collect();
                    starts[u.below(starts.len())]
                } else {
                    u.below(len + 1)
                };
                for (i, c) in t.iter().enumerate() {
                    if at + i < buf.len() {
                        buf[at + i] = *c;
                    } else {
                        buf.push(*c);
                    }
                }
            }
            7 => {
                let t = dict_token(u, b"HTTP/1.1").to_vec();
                let at = u.below(len + 1);
                for (i, c) in t.iter().enumerate() {
                    buf.insert(at + i, *c);
                }
            }
            2 => {
                let at = u.below(len + 1);
                buf.insert(at, byte);
            }
            3 => {
                if len > 0 {
                    let at = u.below(len);
                    buf.remove(at);
                }
            }
            4 => {
                // duplicate a line
                if let Some(pos) = buf.iter().position(|&b| b == b'\n') {
                    let line: Vec<u8> = buf[..=pos].to_vec();
                    let at = pos + 1;
                    for (i, b) in line.iter().enumerate() {
                        buf.insert(at + i, *b);
                    }
                }
            }
            _ => {
                // drop a line
                let nl: Vec<usize> =
                    buf.iter().enumerate().filter(|(_, &b)| b == b'\n').map(|(i, _)| i).collect();
                if nl.len() >= 2 {
                    let k = u.below(nl.len() - 1);
                    buf.drain(nl[k] + 1..=nl[k + 1]);
                }
            }
        }
    }
}

/// G1: a whole message of the given kind. Returns (buffer, number of header lines
/// generated).
pub fn message(u: &mut Choice, kind: Kind, p: &Profile) -> (Vec<u8>, usize) {
    let mut out = Vec::with_capacity(128);
    let mut nlines = 0;
    if kind == Kind::Chunk {
        chunk_line(u, &mut out);
    } else {
        if kind != Kind::Headers {
            // leading empty lines
            match u.weighted(&[220, 20, 10, 6]) {
                0 => {}
                1 => out.extend_from_slice(b"\r\n"),
                2 => out.extend_from_slice(b"\n\r\n\n"),
                _ => out.extend_from_slice(b"\r\r\n"),
            }
            if kind == Kind::Request {
                request_line(u, p, &mut out);
            } else {
                status_line(u, p, &mut out);
            }
        }
        nlines = header_block(u, p, &mut out);
        body(u, &mut out);
    }
    if u.chance(p.mutate) {
        mutate(u, &mut out);
    }
    if u.chance(p.truncate) && !out.is_empty() {
        let at = u.below(out.len() + 1);
        out.truncate(at);
    }
    (out, nlines)
}

// ---------------------------------------------------------------------------------
// G2: class alphabets
// ---------------------------------------------------------------------------------

/// 11-symbol header-block alphabet: one representative per behaviour class.
pub const HDR_ALPHABET: [&[u8]; 11] =
    [b"a", b"@", b":", b" ", b"\t", b"\r", b"\n", b"\x00", b"\x01", b"\x7f", b"\x80"];

/// resume contexts for header blocks
pub const HDR_CONTEXTS: [&[u8]; 8] =
    [b"", b"A: b\r\n", b"Na", b"A:", b"A: b", b"A: b\r", b"A:b\nB:c\n", b"x y\r\n"];

/// token-level start-line alphabet (17 tokens)
pub const START_ALPHABET: [&[u8]; 17] = [
    b"GET", b"X", b" ", b"/", b"\xc3\xa9", b"\xff", b"HTTP/1.1", b"HTTP/1.0", b"HTTP/1.", b"HTTP/1.2",
    b"200", b"20", b"\r\n", b"\n", b"\r", b"\t", b"\x00",
];

/// 14-symbol chunk-size alphabet
pub const CHUNK_ALPHABET: [&[u8]; 14] = [
    b"0", b"9", b"a", b"f", b"A", b"F", b"g", b" ", b"\t", b";", b"\r", b"\n", b"\x00", b"\x80",
];

/// Number of strings over an alphabet of size `a` with length 0..=maxlen.
pub fn count_upto(a: u64, maxlen: u32) -> u64 {
    (0..=maxlen).map(|l| a.pow(l)).sum()
}

/// The idx-th string (shortlex order) over `alphabet`, appended to `out`. Returns the
/// number of symbols.
pub fn nth_string(alphabet: &[&[u8]], mut idx: u64, out: &mut Vec<u8>) -> u32 {
    let a = alphabet.len() as u64;
    let mut len = 0u32;
    loop {
        let c = a.pow(len);
        if idx < c {
            break;
        }
        idx -= c;
        len += 1;
    }
    // most significant symbol first
    let mut div = a.pow(len.saturating_sub(1));
    for _ in 0..len {
        let d = (idx / div) as usize;
        idx %= div;
        div = (div / a).max(1);
        out.extend_from_slice(alphabet[d]);
    }
    len
}

/// Random string over an alphabet.
pub fn class_string(u: &mut Choice, alphabet: &[&[u8]], maxsyms: usize, out: &mut Vec<u8>) {
    let n = u.range(0, maxsyms);
    for _ in 0..n {
        out.extend_from_slice(u.pick_bytes(alphabet));
    }
}

// ---------------------------------------------------------------------------------
// G5: adversarial parametric scale families (C01, C20)
// ---------------------------------------------------------------------------------

use crate::real::{Entry, C_IGNORE_REQ, C_IGNORE_RESP, C_MULTILINE, C_MULTISPACE_REQ, C_MULTISPACE_RESP,
    C_SPACES_AFTER_NAME, C_SPACE_BEFORE_FIRST};

pub const N_FAMILIES: usize = 48;

pub fn family_name(f: usize) -> &'static str {
    [
        "folded lines (A: b + (CRLF SP c)^n)", "whitespace-only folds", "many ignored lines", "one huge ignored line",
        "whitespace run after the colon", "whitespace before the first header", "whitespace between name and colon",
        "trailing whitespace in a value", "multi-space request line", "multi-space status line",
        "HTAB every 8th byte of a value", "HTAB every 16th byte", "HTAB every 31st byte", "HTAB every 32nd byte",
        "one SWAR false-positive byte per word in a target", "many minimal headers", "long header name",
        "long target", "long reason", "leading empty lines", "long chunk extension", "long value of obs-text",
        "G1-like block repeated", "long value then NUL (late error)", "many headers then bad line (late error)",
        "fold + ignore: folded lines with a bad byte late", "space-before-first + ignore: whitespace-led bad lines",
        "long method token", "pure CR/LF", "target of multi-byte UTF-8",
        "interior SP run in a value (a + SP^n + b)", "interior HTAB run in a value", "whitespace-only folds then a visible byte",
        "many short whitespace runs in a value", "long SP run then a fold continuation", "SP run inside an ignored line",
        "reason phrase with an interior SP run", "reason phrase with a leading SP run (default-accepted)",
        "SP run after the status code, no reason", "long run of leading SP/HTAB before every header line (space-before-first + ignore)",
        "folded lines with bare-LF line ends", "folded lines, every physical line 8 bytes long (CRLF)", "folded lines, every physical line 16 bytes long (LF)",
        "folded lines of 17 bytes with HTAB lead", "header lines of exactly 8 bytes (LF)", "header lines of exactly 16 bytes (CRLF)",
        "ignored lines of exactly 8 bytes", "whitespace-only folds with bare LF then a visible byte",
    ][f % N_FAMILIES]
}

/// (entry, cfg, buffer) of family `f` at roughly `size` bytes.
pub fn family(f: usize, size: usize) -> (Entry, u8, Vec<u8>) {
    let mut b: Vec<u8> = Vec::with_capacity(size + 64);
    let resp = b"HTTP/1.1 200 OK\r\n";
    let req = b"GET / HTTP/1.1\r\n";
    let rep = |b: &mut Vec<u8>, unit: &[u8], size: usize| {
        while b.len() + unit.len() <= size {
            b.extend_from_slice(unit);
        }
    };
    match f % N_FAMILIES {
        0 => {
            b.extend_from_slice(resp);
            b.extend_from_slice(b"A: b");
            rep(&mut b, b"\r\n c", size);
            b.extend_from_slice(b"\r\n\r\n");
            (Entry::RespCfg, C_MULTILINE, b)
        }
        1 => {
            b.extend_from_slice(resp);
            b.extend_from_slice(b"A:");
            rep(&mut b, b"\r\n \t", size);
            b.extend_from_slice(b"\r\n\r\n");
            (Entry::RespCfg, C_MULTILINE, b)
        }
        2 => {
            b.extend_from_slice(req);
            rep(&mut b, b"bad\n", size);
            b.extend_from_slice(b"\r\n");
            (Entry::ReqCfg, C_IGNORE_REQ, b)
        }
        3 => {
            b.extend_from_slice(resp);
            b.extend_from_slice(b"bad line ");
            rep(&mut b, b"x y z : ", size);
            b.extend_from_slice(b"\r\n\r\n");
            (Entry::RespCfg, C_IGNORE_RESP, b)
        }
        4 => {
            b.extend_from_slice(b"A:");
            rep(&mut b, b" \t", size);
            b.extend_from_slice(b"v\r\n\r\n");
            (Entry::Headers, 0, b)
        }
        5 => {
            b.extend_from_slice(resp);
            rep(&mut b, b" \t", size);
            b.extend_from_slice(b"A: b\r\n\r\n");
            (Entry::RespCfg, C_SPACE_BEFORE_FIRST, b)
        }
        6 => {
            b.extend_from_slice(resp);
            b.extend_from_slice(b"Name");
            rep(&mut b, b" \t", size);
            b.extend_from_slice(b": v\r\n\r\n");
            (Entry::RespCfg, C_SPACES_AFTER_NAME, b)
        }
        7 => {
            b.extend_from_slice(b"A: v");
            rep(&mut b, b" \t", size);
            b.extend_from_slice(b"\r\n\r\n");
            (Entry::Headers, 0, b)
        }
        8 => {
            b.extend_from_slice(b"GET");
            rep(&mut b, b" ", size / 2);
            b.extend_from_slice(b"/");
            rep(&mut b, b" ", size);
            b.extend_from_slice(b"HTTP/1.1\r\n\r\n");
            (Entry::ReqCfg, C_MULTISPACE_REQ, b)
        }
        9 => {
            b.extend_from_slice(b"HTTP/1.1");
            rep(&mut b, b" ", size / 2);
            b.extend_from_slice(b"200");
            rep(&mut b, b" ", size);
            b.extend_from_slice(b"OK\r\n\r\n");
            (Entry::RespCfg, C_MULTISPACE_RESP, b)
        }
        10..=13 => {
            let period = [8usize, 16, 31, 32][(f % N_FAMILIES) - 10];
            b.extend_from_slice(b"A: v");
            while b.len() < size {
                b.push(if b.len() % period == 0 { b'\t' } else { b'x' });
            }
            b.extend_from_slice(b"\r\n\r\n");
            (Entry::Headers, 0, b)
        }
        14 => {
            b.extend_from_slice(b"GET /");
            while b.len() < size {
                // a byte just above a byte < 0x21 would be a SWAR borrow false positive;
                // targets cannot hold those, so alternate boundary bytes instead
                b.push(if b.len() % 8 == 3 { 0x21 } else { 0x80 | (b.len() % 100) as u8 });
            }
            b.extend_from_slice(b" HTTP/1.1\r\n\r\n");
            (Entry::ReqParse, 0, b)
        }
        15 => {
            rep(&mut b, b"a:\n", size);
            b.extend_from_slice(b"\n");
            (Entry::Headers, 0, b)
        }
        16 => {
            rep(&mut b, b"Nnnnnnnn", size);
            b.extend_from_slice(b": v\r\n\r\n");
            (Entry::Headers, 0, b)
        }
        17 => {
            b.extend_from_slice(b"GET /");
            rep(&mut b, b"abcdefgh", size);
            b.extend_from_slice(b" HTTP/1.1\r\n\r\n");
            (Entry::ReqParse, 0, b)
        }
        18 => {
            b.extend_from_slice(b"HTTP/1.1 200 ");
            rep(&mut b, b"reason \t", size);
            b.extend_from_slice(b"\r\n\r\n");
            (Entry::RespParse, 0, b)
        }
        19 => {
            rep(&mut b, b"\r\n\n", size);
            b.extend_from_slice(b"GET / HTTP/1.1\r\n\r\n");
            (Entry::ReqParse, 0, b)
        }
        20 => {
            b.extend_from_slice(b"1f;");
            rep(&mut b, b"ext=\"v\n\";", size);
            b.extend_from_slice(b"\r\n");
            (Entry::Chunk, 0, b)
        }
        21 => {
            b.extend_from_slice(b"A: ");
            rep(&mut b, b"\xc3\xa9\xff\x80", size);
            b.extend_from_slice(b"\r\n\r\n");
            (Entry::Headers, 0, b)
        }
        22 => {
            b.extend_from_slice(resp);
            rep(&mut b, b"Host: example.com\r\nAccept: */*\r\nX-Y: a b\tc \r\nE:\r\n", size);
            b.extend_from_slice(b"\r\n");
            (Entry::RespParse, 0, b)
        }
        23 => {
            b.extend_from_slice(b"A: ");
            rep(&mut b, b"value ", size);
            b.extend_from_slice(b"\x00\r\n\r\n");
            (Entry::Headers, 0, b)
        }
        24 => {
            b.extend_from_slice(req);
            rep(&mut b, b"A: b\r\n", size);
            b.extend_from_slice(b"bad line\r\n\r\n");
            (Entry::ReqParse, 0, b)
        }
        25 => {
            b.extend_from_slice(resp);
            rep(&mut b, b"A: b\r\n c\r\n d\x01\r\n", size);
            b.extend_from_slice(b"\r\n");
            (Entry::RespCfg, C_MULTILINE | C_IGNORE_RESP, b)
        }
        26 => {
            b.extend_from_slice(resp);
            rep(&mut b, b" \tbad line\r\n", size);
            b.extend_from_slice(b"\r\n");
            (Entry::RespCfg, C_SPACE_BEFORE_FIRST | C_IGNORE_RESP, b)
        }
        27 => {
            rep(&mut b, b"METHOD", size);
            b.extend_from_slice(b" / HTTP/1.1\r\n\r\n");
            (Entry::ReqParse, 0, b)
        }
        28 => {
            rep(&mut b, b"\r\n", size);
            (Entry::RespParse, 0, b)
        }
        29 => {
            b.extend_from_slice(b"GET /");
            rep(&mut b, b"\xe2\x82\xac\xc3\xa9", size);
            b.extend_from_slice(b" HTTP/1.1\r\n\r\n");
            (Entry::ReqParse, 0, b)
        }
        30 => {
            b.extend_from_slice(b"A: a");
            rep(&mut b, b" ", size);
            b.extend_from_slice(b"b\r\n\r\n");
            (Entry::Headers, 0, b)
        }
        31 => {
            b.extend_from_slice(req);
            b.extend_from_slice(b"A: a");
            rep(&mut b, b"\t", size);
            b.extend_from_slice(b"b\r\nC: d\r\n\r\n");
            (Entry::ReqParse, 0, b)
        }
        32 => {
            b.extend_from_slice(resp);
            b.extend_from_slice(b"A: a");
            rep(&mut b, b"\r\n ", size);
            b.extend_from_slice(b"b\r\n\r\n");
            (Entry::RespCfg, C_MULTILINE, b)
        }
        33 => {
            b.extend_from_slice(b"A: ");
            rep(&mut b, b"x \ty  ", size);
            b.extend_from_slice(b"z\r\n\r\n");
            (Entry::Headers, 0, b)
        }
        34 => {
            b.extend_from_slice(resp);
            b.extend_from_slice(b"A: a");
            rep(&mut b, b" ", size);
            b.extend_from_slice(b"\r\n b\r\n\r\n");
            (Entry::RespCfg, C_MULTILINE, b)
        }
        35 => {
            b.extend_from_slice(req);
            b.extend_from_slice(b"bad");
            rep(&mut b, b" ", size);
            b.extend_from_slice(b"x\r\nA: b\r\n\r\n");
            (Entry::ReqCfg, C_IGNORE_REQ, b)
        }
        36 => {
            b.extend_from_slice(b"HTTP/1.1 200 a");
            rep(&mut b, b" ", size);
            b.extend_from_slice(b"b\r\nA: b\r\n\r\n");
            (Entry::RespParse, 0, b)
        }
        37 => {
            b.extend_from_slice(b"HTTP/1.1 200");
            rep(&mut b, b" ", size);
            b.extend_from_slice(b"OK\r\nA: b\r\n\r\n");
            (Entry::RespParse, 0, b)
        }
        38 => {
            b.extend_from_slice(b"HTTP/1.0 204");
            rep(&mut b, b" ", size);
            b.extend_from_slice(b"\r\n\r\n");
            (Entry::RespParse, 0, b)
        }
        39 => {
            b.extend_from_slice(req);
            b.extend_from_slice(b"A: b\r\n");
            rep(&mut b, b"  \t x\r\n", size);
            b.extend_from_slice(b"\r\n");
            (Entry::ReqCfg, C_SPACE_BEFORE_FIRST | C_IGNORE_REQ, b)
        }
        // line-length / line-end periodicities (a per-line search for the previous line break
        // that fails for one line-end style or one length class re-scans the value so far)
        40 => {
            b.extend_from_slice(b"HTTP/1.1 200 OK\n");
            b.extend_from_slice(b"A: b");
            rep(&mut b, b"\n c", size);
            b.extend_from_slice(b"\n\n");
            (Entry::RespCfg, C_MULTILINE, b)
        }
        41 => {
            b.extend_from_slice(resp);
            b.extend_from_slice(b"A: b");
            rep(&mut b, b"\r\n cdefg", size); // physical line " cdefg\r\n" = 8 bytes
            b.extend_from_slice(b"\r\n\r\n");
            (Entry::RespCfg, C_MULTILINE, b)
        }
        42 => {
            b.extend_from_slice(b"HTTP/1.1 200 OK\n");
            b.extend_from_slice(b"A: b");
            rep(&mut b, b"\n cdefghijklmnop", size); // " cdefghijklmnop\n" = 16 bytes
            b.extend_from_slice(b"\n\n");
            (Entry::RespCfg, C_MULTILINE, b)
        }
        43 => {
            b.extend_from_slice(resp);
            b.extend_from_slice(b"A: b");
            rep(&mut b, b"\r\n\tcdefghijklmnop", size); // 17 bytes
            b.extend_from_slice(b"\r\n\r\n");
            (Entry::RespCfg, C_MULTILINE, b)
        }
        44 => {
            b.extend_from_slice(b"GET / HTTP/1.1\n");
            rep(&mut b, b"ab: cde\n", size); // 8 bytes
            b.extend_from_slice(b"\n");
            (Entry::ReqParse, 0, b)
        }
        45 => {
            b.extend_from_slice(resp);
            rep(&mut b, b"Abcd: efghijkl\r\n", size); // 16 bytes
            b.extend_from_slice(b"\r\n");
            (Entry::RespParse, 0, b)
        }
        46 => {
            b.extend_from_slice(req);
            rep(&mut b, b"bad lin\n", size); // 8 bytes
            b.extend_from_slice(b"A: b\r\n\r\n");
            (Entry::ReqCfg, C_IGNORE_REQ, b)
        }
        _ => {
            b.extend_from_slice(b"HTTP/1.1 200 OK\n");
            b.extend_from_slice(b"A:");
            rep(&mut b, b"\n \t", size);
            b.extend_from_slice(b"\n x\n\n");
            (Entry::RespCfg, C_MULTILINE, b)
        }
    }
}
