//! Source transformation at build time: compile the *current* /repo/src/simd/neon.rs
//! against a scalar emulation of the intrinsics it uses (C12's NEON sub-check).
use std::fs;
use std::path::Path;

fn main() {
    println!("cargo:rerun-if-env-changed=VERIF_REPO");
    let src_path_s = format!("{}/src/simd/neon.rs", std::env::var("VERIF_REPO").unwrap_or_else(|_| "/repo".to_string()));
    let src_path = src_path_s.as_str();
    println!("cargo:rerun-if-changed={}", src_path);
    println!("cargo:rerun-if-changed=build.rs");
    let out = std::env::var("OUT_DIR").unwrap();
    let dst = Path::new(&out).join("neon_gen.rs");
    if std::env::var_os("CARGO_FEATURE_NEON").is_none() {
        fs::write(&dst, "pub const AVAILABLE: bool = false;\n").unwrap();
        return;
    }
    let src = match fs::read_to_string(src_path) {
        Ok(s) => s,
        Err(_) => {
            fs::write(&dst, "pub const AVAILABLE: bool = false;\n").unwrap();
            return;
        }
    };
    let mut s = src
        .replace("use crate::iter::Bytes;", "use httparse::_verif::Bytes;")
        .replace("use core::arch::aarch64::*;", "use crate::neon_emu::*;")
        .replace("super::swar::match_header_name_vectored(", "httparse::_verif::simd::swar_header_name(")
        .replace("super::swar::match_header_value_vectored(", "httparse::_verif::simd::swar_header_value(")
        .replace("super::swar::match_uri_vectored(", "httparse::_verif::simd::swar_uri(");
    // legacy const-generic call syntax: f(x, N) -> f::<N>(x)
    for f in ["vshrq_n_u8", "vshlq_n_u8", "vshrn_n_u16", "vshrq_n_u16", "vshrq_n_u64"] {
        let pat = format!("{}(", f);
        let mut out_s = String::new();
        let mut rest = s.as_str();
        while let Some(i) = rest.find(&pat) {
            out_s.push_str(&rest[..i]);
            let after = &rest[i + pat.len()..];
            // find matching close paren
            let mut depth = 1;
            let mut end = 0;
            for (k, c) in after.char_indices() {
                if c == '(' {
                    depth += 1;
                } else if c == ')' {
                    depth -= 1;
                    if depth == 0 {
                        end = k;
                        break;
                    }
                }
            }
            let args = &after[..end];
            if let Some(comma) = args.rfind(',') {
                let n = args[comma + 1..].trim();
                if !n.is_empty() && n.chars().all(|c| c.is_ascii_digit()) {
                    out_s.push_str(&format!("{}::<{}>({})", f, n, args[..comma].trim()));
                } else {
                    out_s.push_str(&format!("{}({})", f, args));
                }
            } else {
                out_s.push_str(&format!("{}({})", f, args));
            }
            rest = &after[end + 1..];
        }
        out_s.push_str(rest);
        s = out_s;
    }
    s.push_str("\npub const AVAILABLE: bool = true;\n");
    fs::write(&dst, s).unwrap();
}
