//! vcheck: runner for the property checks.
//!
//!   vcheck <ID> [--tier quick|thorough] [--seed N] [--merge-evidence]
//!   vcheck <ID> --replay <file>
//!
//! Exit codes: 0 = property held on everything explored; 1 = VIOLATION line(s) printed;
//! 2 = could not decide (watchdog, crash under a property that is not about crashes,
//! harness problem).

use std::io::Write;
use std::process::{Command, Stdio};
use std::time::{Duration, Instant};
use vlib::engine::{CaseRec, Runner, Tier, Violation};
use vlib::props;
use vlib::real;

#[global_allocator]
static GLOBAL: vlib::alloc::CountingAlloc = vlib::alloc::CountingAlloc;

const SLOT: usize = (1 << 20) + 8192;
const SLOTS: usize = 64;

fn profile_name() -> &'static str {
    if !vlib::real::has_runtime_dispatch() {
        "release, httparse built with SIMD disabled (CARGO_CFG_HTTPARSE_DISABLE_SIMD=1: the cfg(not(httparse_simd)) code paths)"
    } else if cfg!(debug_assertions) {
        "dbg (opt-level 1, debug-assertions, overflow-checks)"
    } else {
        "release (opt-level 3, no debug assertions)"
    }
}

struct Args {
    id: String,
    tier: Tier,
    seed: u64,
    replay: Option<String>,
    replay_slot: Option<String>,
    worker: bool,
    merge: bool,
    no_evidence: bool,
}

fn parse_args() -> Args {
    let mut a = Args {
        id: String::new(),
        tier: match std::env::var("VERIF_TIER").as_deref() {
            Ok("thorough") => Tier::Thorough,
            _ => Tier::Quick,
        },
        seed: vlib::engine::env_u64("VERIF_SEED", 1),
        replay: None,
        replay_slot: None,
        worker: false,
        merge: false,
        no_evidence: std::env::var("VERIF_NO_EVIDENCE").as_deref() == Ok("1"),
    };
    let mut it = std::env::args().skip(1);
    while let Some(x) = it.next() {
        match x.as_str() {
            "--tier" => {
                a.tier = match it.next().as_deref() {
                    Some("thorough") => Tier::Thorough,
                    Some("quick") => Tier::Quick,
                    other => die(&format!("bad tier {:?}", other)),
                }
            }
            "quick" => a.tier = Tier::Quick,
            "thorough" => a.tier = Tier::Thorough,
            "--seed" => a.seed = it.next().and_then(|s| s.parse().ok()).unwrap_or_else(|| die("bad seed")),
            "--replay" => a.replay = it.next(),
            "--replay-slot" => a.replay_slot = it.next(),
            "--worker" => a.worker = true,
            "--merge-evidence" => a.merge = true,
            "--no-evidence" => a.no_evidence = true,
            s if a.id.is_empty() && !s.starts_with('-') => a.id = s.to_string(),
            s => die(&format!("unknown argument {}", s)),
        }
    }
    if a.id.is_empty() {
        die("usage: vcheck <ID> [--tier quick|thorough] [--seed N] | vcheck <ID> --replay <file>");
    }
    a
}

fn die(msg: &str) -> ! {
    eprintln!("vcheck: {}", msg);
    std::process::exit(2)
}

fn main() {
    let args = parse_args();
    let prop = props::find(&args.id).unwrap_or_else(|| die(&format!("unknown property {}", args.id)));
    if std::env::var("VERIF_DUMP_DICT").is_ok() {
        for t in vlib::gen::dict() {
            println!("{}", vlib::engine::show_bytes(t, 80));
        }
        std::process::exit(0);
    }
    if let Some(path) = &args.replay {
        std::process::exit(replay(&prop, path));
    }
    if let Some(path) = &args.replay_slot {
        std::process::exit(replay_slot(&prop, path));
    }
    if args.worker || cfg!(miri) {
        std::process::exit(worker(&prop, &args));
    }
    std::process::exit(supervisor(&args));
}

// ---------------------------------------------------------------------------------

fn supervisor(args: &Args) -> i32 {
    let dir = format!("{}/target/inflight", vlib::verif_dir());
    let _ = std::fs::create_dir_all(&dir);
    let path = format!("{}/{}-{}.bin", dir, args.id, std::process::id());
    {
        let f = std::fs::File::create(&path).unwrap_or_else(|e| die(&format!("cannot create {}: {}", path, e)));
        f.set_len((SLOT * SLOTS) as u64).unwrap();
    }
    let exe = std::env::current_exe().unwrap();
    let mut cmd = Command::new(&exe);
    cmd.args(std::env::args().skip(1)).arg("--worker").env("VERIF_INFLIGHT", &path);
    let mut child = cmd.spawn().unwrap_or_else(|e| die(&format!("cannot spawn worker: {}", e)));
    let limit = vlib::engine::env_u64(
        "VERIF_TIMEOUT_S",
        if args.tier == Tier::Quick { 3600 } else { 8 * 3600 },
    );
    let t0 = Instant::now();
    let status = loop {
        match child.try_wait() {
            Ok(Some(st)) => break st,
            Ok(None) => {
                if t0.elapsed() > Duration::from_secs(limit) {
                    let _ = child.kill();
                    let _ = child.wait();
                    println!("INCONCLUSIVE property={} watchdog expired after {} s", args.id, limit);
                    let _ = std::fs::remove_file(&path);
                    return 2;
                }
                std::thread::sleep(Duration::from_millis(50));
            }
            Err(e) => die(&format!("wait failed: {}", e)),
        }
    };
    let code = if status.code() == Some(3) {
        stalled(args, &path)
    } else if let Some(c) = status.code() {
        c
    } else {
        // died by signal: look at what was in flight
        use std::os::unix::process::ExitStatusExt;
        let sig = status.signal().unwrap_or(0);
        eprintln!("vcheck: worker died by signal {}", sig);
        crashed(args, &path, sig)
    };
    let _ = std::fs::remove_file(&path);
    code
}

/// The worker died by a signal. Re-confirm each in-flight case in a fresh process.
fn crashed(args: &Args, path: &str, sig: i32) -> i32 {
    let data = std::fs::read(path).unwrap_or_default();
    let exe = std::env::current_exe().unwrap();
    let dir = format!("{}/replays/found", vlib::verif_dir());
    let _ = std::fs::create_dir_all(&dir);
    let mut confirmed = vec![];
    for s in 0..SLOTS {
        let slot = &data[s * SLOT..(s + 1) * SLOT];
        if slot[6] != 1 {
            continue;
        }
        let len = u64::from_le_bytes(slot[16..24].try_into().unwrap()) as usize;
        let n = len.min(SLOT - real::SLOT_HDR);
        let tmp = format!("{}/target/inflight/{}-{}-slot{}.bin", vlib::verif_dir(), args.id, std::process::id(), s);
        std::fs::write(&tmp, &slot[..real::SLOT_HDR + n]).unwrap();
        let crashes = |file: &str| -> bool {
            let st = Command::new(&exe)
                .arg(&args.id)
                .arg("--replay-slot")
                .arg(file)
                .stdout(Stdio::null())
                .stderr(Stdio::null())
                .status();
            matches!(st, Ok(st) if st.code().is_none() || st.code() == Some(101))
        };
        if crashes(&tmp) {
            // minimise: shorten the buffer from the front/back while it still crashes
            let mut best = slot[..real::SLOT_HDR + n].to_vec();
            let mut budget = 60;
            let mut step = (best.len() - real::SLOT_HDR) / 2;
            while step >= 1 && budget > 0 {
                let blen = best.len() - real::SLOT_HDR;
                let mut improved = false;
                for from_front in [false, true] {
                    if blen <= step || budget == 0 {
                        continue;
                    }
                    budget -= 1;
                    let mut cand = best[..real::SLOT_HDR].to_vec();
                    if from_front {
                        cand.extend_from_slice(&best[real::SLOT_HDR + step..]);
                    } else {
                        cand.extend_from_slice(&best[real::SLOT_HDR..best.len() - step]);
                    }
                    let newlen = (cand.len() - real::SLOT_HDR) as u64;
                    cand[16..24].copy_from_slice(&newlen.to_le_bytes());
                    std::fs::write(&tmp, &cand).unwrap();
                    if crashes(&tmp) {
                        best = cand;
                        improved = true;
                        break;
                    }
                }
                if !improved {
                    step /= 2;
                }
            }
            confirmed.push(best);
        }
        let _ = std::fs::remove_file(&tmp);
    }
    let about_crashes = args.id == "C01" || args.id == "C12";
    if confirmed.is_empty() {
        println!(
            "INCONCLUSIVE property={} worker died by signal {} and no in-flight case reproduced it",
            args.id, sig
        );
        return 2;
    }
    let mut code = 2;
    for (i, c) in confirmed.iter().enumerate() {
        let rec = slot_to_rec(c);
        let file = format!("{}/{}-crash-{}-{}.json", dir, args.id, std::process::id(), i);
        let v = serde_json_like(&args.id, "crash/signal", &format!("the call died by signal {} (memory fault / abort) and does so again in a fresh process", sig), &rec);
        std::fs::write(&file, v).unwrap();
        if about_crashes {
            println!("VIOLATION property={} replay={}", args.id, file);
            println!("  signature: {}/crash/signal-{}", args.id, sig);
            code = 1;
        } else {
            println!(
                "INCONCLUSIVE property={} the parser crashed (signal {}) on the case saved in {}; crashes are C01's subject",
                args.id, sig, file
            );
        }
    }
    code
}

/// The worker reported that no case finished for a long time. Re-run each in-flight case in
/// a fresh process with a 60 s budget; one that again does not return is non-termination.
fn stalled(args: &Args, path: &str) -> i32 {
    let data = std::fs::read(path).unwrap_or_default();
    let exe = std::env::current_exe().unwrap();
    let dir = format!("{}/replays/found", vlib::verif_dir());
    let _ = std::fs::create_dir_all(&dir);
    let mut code = 2;
    let mut any = false;
    // re-run every in-flight case in its own fresh process, all at once, 30 s budget
    let mut children = vec![];
    for s in 0..SLOTS {
        let slot = &data[s * SLOT..(s + 1) * SLOT];
        if slot[6] != 1 {
            continue;
        }
        let len = u64::from_le_bytes(slot[16..24].try_into().unwrap()) as usize;
        let n = len.min(SLOT - real::SLOT_HDR);
        let tmp = format!("{}/target/inflight/{}-{}-stall{}.bin", vlib::verif_dir(), args.id, std::process::id(), s);
        std::fs::write(&tmp, &slot[..real::SLOT_HDR + n]).unwrap();
        if let Ok(c) = Command::new(&exe).arg(&args.id).arg("--replay-slot").arg(&tmp).stdout(Stdio::null()).stderr(Stdio::null()).spawn() {
            children.push((s, n, tmp, c, false));
        }
    }
    let t0 = Instant::now();
    while t0.elapsed() < Duration::from_secs(30) && children.iter().any(|c| !c.4) {
        for c in children.iter_mut() {
            if !c.4 {
                if let Ok(Some(_)) = c.3.try_wait() {
                    c.4 = true;
                }
            }
        }
        std::thread::sleep(Duration::from_millis(100));
    }
    let mut reported = 0;
    for (s, n, tmp, mut child, done) in children {
        if !done {
            let _ = child.kill();
            let _ = child.wait();
            any = true;
            if reported < 2 {
                reported += 1;
                let slot = &data[s * SLOT..(s + 1) * SLOT];
                let rec = slot_to_rec(&slot[..real::SLOT_HDR + n]);
                let file = format!("{}/{}-hang-{}-{}.json", dir, args.id, std::process::id(), s);
                std::fs::write(&file, vlib::engine::replay_json(&args.id, &format!("{}/non-termination", args.id), "the call did not return within 30 s in a fresh process (4-5 orders of magnitude above the normal cost)", &rec)).unwrap();
                // a call that never returns violates C01 (terminates), C12 (the scanner stops
                // at the first out-of-class byte or at the end) and C20 (time bounded by a
                // constant times the length) alike
                if matches!(args.id.as_str(), "C01" | "C12" | "C20") {
                    println!("VIOLATION property={} replay={}", args.id, file);
                    println!("  signature: {}/non-termination", args.id);
                    println!("  input: {}", vlib::engine::show_bytes(&rec.buf, 120));
                    code = 1;
                } else {
                    println!("INCONCLUSIVE property={} a call does not terminate (case saved in {}); termination is C01's subject", args.id, file);
                }
            }
        }
        let _ = std::fs::remove_file(&tmp);
    }
    if !any {
        println!("INCONCLUSIVE property={} the worker stalled but no in-flight case reproduced it within 60 s", args.id);
    }
    code
}

fn slot_to_rec(slot: &[u8]) -> CaseRec {
    let cap = u64::from_le_bytes(slot[8..16].try_into().unwrap()) as usize;
    let mut rec = CaseRec::new("crash", real::Entry::from_u8(slot[0]), slot[1], cap, slot[real::SLOT_HDR..].to_vec());
    rec.place = vlib::arena::Placement::from_code(slot[2]);
    rec.backend = slot[3];
    rec.aux = vec![slot[5] as u64, slot[4] as u64];
    if slot[7] == 0xC1 {
        // direct scanner call (C12): cfg = backend, cap = class, aux = [start, cell]
        rec.sub = std::borrow::Cow::Borrowed("scanner");
        rec.aux = vec![(slot[4] as u64) | ((slot[5] as u64) << 8), slot[3] as u64];
    }
    rec
}

fn serde_json_like(prop: &str, sig: &str, detail: &str, rec: &CaseRec) -> String {
    vlib::engine::replay_json(prop, sig, detail, rec)
}

fn replay_slot(prop: &props::PropDef, path: &str) -> i32 {
    let data = std::fs::read(path).unwrap_or_else(|e| die(&format!("{}: {}", path, e)));
    let rec = slot_to_rec(&data);
    real::set_backend(rec.backend);
    let r = Runner::new(leak(prop.id), Tier::Quick, 1);
    let mut ctx = real::Ctx::new(rec.buf.len() + 4096, rec.cap.max(64));
    let mut l = vlib::engine::Local::default();
    match (prop.check)(&r, &mut ctx, &mut l, &rec) {
        Ok(()) => 0,
        Err(_) => 1,
    }
}

fn leak(s: &str) -> &'static str {
    Box::leak(s.to_string().into_boxed_str())
}

// ---------------------------------------------------------------------------------

fn replay(prop: &props::PropDef, path: &str) -> i32 {
    let text = std::fs::read_to_string(path).unwrap_or_else(|e| die(&format!("{}: {}", path, e)));
    let (rec, sig) = vlib::engine::parse_replay(&text).unwrap_or_else(|| die("replay file not understood"));
    real::set_backend(rec.backend);
    let mut r = Runner::new(leak(prop.id), Tier::Quick, 1);
    r.known = Default::default(); // strict mode: known findings are not tolerated in replay
    let mut ctx = real::Ctx::new(rec.buf.len().max(prop.max_buf) + 4096, rec.cap.max(64));
    let mut l = vlib::engine::Local::default();
    match (prop.check)(&r, &mut ctx, &mut l, &rec) {
        Ok(()) => {
            println!("replay: property {} holds on this case (recorded signature was {})", prop.id, sig);
            0
        }
        Err(v) => {
            println!("VIOLATION property={} replay={}", prop.id, path);
            println!("  signature: {}", v.sig);
            println!("  detail: {}", v.detail);
            1
        }
    }
}

// ---------------------------------------------------------------------------------

fn worker(prop: &props::PropDef, args: &Args) -> i32 {
    let t0 = Instant::now();
    let mut r = Runner::new(leak(prop.id), args.tier, args.seed);
    r.max_buf = prop.max_buf;
    if let Ok(path) = std::env::var("VERIF_INFLIGHT") {
        unsafe {
            let c = std::ffi::CString::new(path).unwrap();
            let fd = libc::open(c.as_ptr(), libc::O_RDWR);
            if fd >= 0 {
                let p = libc::mmap(
                    std::ptr::null_mut(),
                    SLOT * SLOTS,
                    libc::PROT_READ | libc::PROT_WRITE,
                    libc::MAP_SHARED,
                    fd,
                    0,
                );
                if p != libc::MAP_FAILED {
                    r.inflight_base = (p as usize, SLOT);
                }
                libc::close(fd);
            }
        }
    }
    r.threads = r.threads.min(SLOTS);
    // quiet panic hook: panics inside the parser are caught per case and judged there
    let default_hook = std::panic::take_hook();
    std::panic::set_hook(Box::new(move |info| {
        if !real::IN_PARSER.with(|c| c.get()) {
            default_hook(info);
        }
    }));
    let finished = std::sync::Arc::new(std::sync::atomic::AtomicBool::new(false));
    // stall monitor: no case finishing anywhere for STALL seconds = a call does not return.
    // C01, C12, C20 (whose statements cover termination) use 15 s; the checks whose phases
    // are all in-process enumerations / random searches use 40 s and report a stall as
    // "could not decide" (exit 2). C04, C13, C19 spend long stretches in compilers and
    // child processes and rely on the supervisor's watchdog instead.
    let stall_default = match prop.id {
        "C01" | "C12" | "C20" => 15,
        "C04" | "C13" | "C19" => 0,
        _ => 40,
    };
    if stall_default > 0 {
        let fin = finished.clone();
        let stall = vlib::engine::env_u64("VERIF_STALL_S", stall_default);
        std::thread::spawn(move || {
            let mut last = (vlib::engine::PROGRESS.load(std::sync::atomic::Ordering::Relaxed), Instant::now());
            loop {
                std::thread::sleep(Duration::from_millis(500));
                if fin.load(std::sync::atomic::Ordering::Relaxed) {
                    return;
                }
                let now = vlib::engine::PROGRESS.load(std::sync::atomic::Ordering::Relaxed);
                if vlib::engine::EXTERNAL.load(std::sync::atomic::Ordering::SeqCst) > 0 {
                    // a thread waits for a compiler / cargo / a variant binary: not a stall
                    last = (now, Instant::now());
                } else if now != last.0 {
                    last = (now, Instant::now());
                } else if last.1.elapsed() > Duration::from_secs(stall) {
                    eprintln!("vcheck: no case finished for {} s: a call does not return", stall);
                    std::process::exit(3);
                }
            }
        });
    }
    // VERIF_MAIN_STRIDE: the whole run is a 1/n sample (used for the SIMD-disabled build pass)
    let main_stride = vlib::engine::env_u64("VERIF_MAIN_STRIDE", 1).max(1);
    r.stride.store(main_stride, std::sync::atomic::Ordering::Relaxed);
    if main_stride > 1 {
        r.note(format!("this pass (a 1/{} sample of every phase) ran in a harness whose httparse was built with SIMD disabled at build time", main_stride));
    }
    (prop.run)(&r);
    r.stride.store(1, std::sync::atomic::Ordering::Relaxed);
    // alternate-backend passes: the semantic properties must hold whichever scanner backend
    // is dispatched to, so the same phases are run again — a 1/ALT_STRIDE sample of every
    // enumeration and of every random phase — with the scalar (SWAR) and the SSE4.2 arm
    // forced through hook H2. (C01, C04, C12, C13, C19, C20 handle backends themselves;
    // chunk sizes do not use a scanner.)
    if matches!(prop.id, "C02" | "C03" | "C05" | "C06" | "C07" | "C08" | "C10" | "C11" | "C14" | "C15" | "C16" | "C17" | "C18")
        && std::env::var("VERIF_NO_ALT").as_deref() != Ok("1")
    {
        let native = if is_x86_feature_detected!("avx2") { 1 } else if is_x86_feature_detected!("sse4.2") { 2 } else { 3 };
        let stride = vlib::engine::env_u64("VERIF_ALT_STRIDE", 4).max(2);
        for be in real::usable_backends() {
            if be == native || be == 0 || r.stopped() {
                continue;
            }
            r.stride.store(stride, std::sync::atomic::Ordering::Relaxed);
            real::set_backend(be);
            r.note(format!("alternate-backend pass: every phase re-run on a 1/{} sample with the {} dispatch arm forced (hook H2)", stride, real::backend_name(be)));
            (prop.run)(&r);
        }
        // cold-start pass: the cached feature cell is reset before every call, so every call
        // goes through the dispatcher's first-call (detection) path
        if !r.stopped() && real::usable_backends() != vec![0] {
            r.stride.store(stride * 2, std::sync::atomic::Ordering::Relaxed);
            real::set_backend(255);
            r.note(format!("cold-start pass: every phase re-run on a 1/{} sample with the cached CPU-feature cell reset to 'not yet detected' before every call (hook H2)", stride * 2));
            (prop.run)(&r);
        }
        r.stride.store(1, std::sync::atomic::Ordering::Relaxed);
        real::set_backend(0);
    }
    finished.store(true, std::sync::atomic::Ordering::Relaxed);
    if args.tier == Tier::Thorough && !r.stopped() && !cfg!(debug_assertions) && std::env::var("VERIF_NO_FUZZ").as_deref() != Ok("1") {
        fuzz_phase(prop, &r);
    }
    let _ = std::panic::take_hook();

    let check = |ctx: &mut real::Ctx, l: &mut vlib::engine::Local, rec: &CaseRec| (prop.check)(&r, ctx, l, rec);
    let found: Vec<Violation> = std::mem::take(&mut *r.violations.lock().unwrap());
    let dir = format!("{}/replays/found", vlib::verif_dir());
    let mut nviol = 0;
    for v in found {
        real::set_backend(v.rec.backend);
        let v = r.shrink(v, &check);
        real::set_backend(0);
        let _ = std::fs::create_dir_all(&dir);
        let h = vlib::engine::rec_hash(&v.rec);
        let file = format!("{}/{}-{:016x}.json", dir, prop.id, h);
        std::fs::write(&file, vlib::engine::replay_json(prop.id, &v.sig, &v.detail, &v.rec)).unwrap();
        println!("VIOLATION property={} replay={}", prop.id, file);
        println!("  signature: {}", v.sig);
        println!("  detail: {}", v.detail);
        println!("  input: {}", vlib::engine::show_bytes(&v.rec.buf, 200));
        nviol += 1;
    }
    // known findings listed for this property
    let hits = r.known_hits.lock().unwrap().clone();
    for (p, sig, text) in &r.known.open {
        if p == prop.id {
            let n = hits.get(sig).map(|x| x.0).unwrap_or(0);
            println!("KNOWN-FINDING: property={} sig={} {} (met {} times in this run)", p, sig, text, n);
        }
    }
    let inconclusive = r.inconclusive.lock().unwrap().clone();
    for m in &inconclusive {
        println!("INCONCLUSIVE property={} {}", prop.id, m);
    }
    if !args.no_evidence {
        write_evidence(prop, &r, args, t0, nviol);
    }
    let _ = std::io::stdout().flush();
    if nviol > 0 {
        1
    } else if !inconclusive.is_empty() {
        2
    } else {
        0
    }
}

/// Thorough tier: a coverage-guided libFuzzer campaign (ASan, debug assertions) on the
/// target that exercises this property; the oracle is inside the target.
fn fuzz_phase(prop: &props::PropDef, r: &Runner) {
    let target = match vlib::fuzzdec::target_of(prop.id) {
        Some(t) => t,
        None => return,
    };
    let t0 = Instant::now();
    let fuzzdir = format!("{}/fuzz", vlib::verif_dir());
    let out = Command::new("cargo")
        .current_dir(&fuzzdir)
        .args(["+nightly", "fuzz", "build", "--fuzz-dir", &fuzzdir, target])
        .env("RUSTFLAGS", "--cfg httparse_verif")
        .env("CARGO_NET_OFFLINE", "true")
        .output();
    match out {
        Ok(o) if o.status.success() => {}
        Ok(o) => {
            r.inconclusive.lock().unwrap().push(format!("fuzz target {} does not build: {}", target, String::from_utf8_lossy(&o.stderr).lines().filter(|l| l.starts_with("error")).take(3).collect::<Vec<_>>().join(" | ")));
            return;
        }
        Err(e) => {
            r.inconclusive.lock().unwrap().push(format!("cannot run cargo fuzz: {}", e));
            return;
        }
    }
    let bin = format!("{}/target/x86_64-unknown-linux-gnu/release/{}", fuzzdir, target);
    let jobs = 8usize;
    let runs = vlib::engine::env_u64("VERIF_FUZZ_RUNS", if target == "fz_stream" { 40_000 } else { 400_000 });
    let _ = std::fs::create_dir_all(format!("{}/artifacts", fuzzdir));
    let mut children = vec![];
    for j in 0..jobs {
        let work = format!("{}/work/{}-{}", fuzzdir, prop.id, j);
        let _ = std::fs::remove_dir_all(&work);
        let _ = std::fs::create_dir_all(&work);
        // half of the jobs start from the committed seeds, half from an empty corpus
        if j % 2 == 0 {
            if let Ok(rd) = std::fs::read_dir(format!("{}/corpus/{}", vlib::verif_dir(), target)) {
                for e in rd.flatten() {
                    let _ = std::fs::copy(e.path(), format!("{}/{}", work, e.file_name().to_string_lossy()));
                }
            }
        }
        let child = Command::new(&bin)
            .arg(&work)
            .arg(format!("-runs={}", runs))
            .arg(format!("-seed={}", r.seed.wrapping_mul(1000).wrapping_add(j as u64 + 1) & 0x7fff_ffff))
            .args(["-max_len=220", "-len_control=0", "-print_final_stats=1"])
            .arg(format!("-artifact_prefix={}/artifacts/{}-{}-", fuzzdir, prop.id, j))
            .env("VERIF_FUZZ_PROP", prop.id)
            .stdout(Stdio::null())
            .stderr(match std::fs::File::create(format!("{}.log", work)) {
                Ok(f) => Stdio::from(f),
                Err(_) => Stdio::null(),
            })
            .spawn();
        if let Ok(c) = child {
            children.push((j, work, c));
        }
    }
    let mut total_runs = 0u64;
    let mut cov = 0u64;
    for (j, work, mut c) in children {
        let status = match c.wait() {
            Ok(s) => s,
            Err(_) => continue,
        };
        let err = std::fs::read(format!("{}.log", work)).map(|b| String::from_utf8_lossy(&b).to_string()).unwrap_or_default();
        let _ = std::fs::remove_file(format!("{}.log", work));
        for line in err.lines() {
            if let Some(x) = line.strip_prefix("stat::number_of_executed_units:") {
                total_runs += x.trim().parse::<u64>().unwrap_or(0);
            }
            if line.contains(" cov: ") {
                if let Some(v) = line.split(" cov: ").nth(1).and_then(|s| s.split_whitespace().next()).and_then(|s| s.parse::<u64>().ok()) {
                    cov = cov.max(v);
                }
            }
        }
        if !status.success() {
            // a crash: find the artifact
            let art = err.lines().find_map(|l| l.split("Test unit written to ").nth(1)).map(|s| s.trim().to_string());
            let what = err.lines().find(|l| l.contains("VIOLATION property=") || l.contains("ERROR: AddressSanitizer") || l.contains("panicked at")).unwrap_or("crash").to_string();
            match art.and_then(|a| std::fs::read(&a).ok()) {
                Some(data) => {
                    let cases = vlib::fuzzdec::decode(target, &data);
                    let mut reported = false;
                    let mut ctx = real::Ctx::new(prop.max_buf, 1024);
                    let mut l = vlib::engine::Local::default();
                    for (id, rec) in cases {
                        if id != prop.id {
                            continue;
                        }
                        match (prop.check)(r, &mut ctx, &mut l, &rec) {
                            Err(v) => {
                                r.report(v);
                                reported = true;
                            }
                            Ok(()) => {
                                if what.contains("AddressSanitizer") && prop.id == "C01" {
                                    r.report(Violation::new("C01/asan", format!("AddressSanitizer report in the fuzz build: {}", what), &rec));
                                    reported = true;
                                }
                            }
                        }
                    }
                    if !reported {
                        r.inconclusive.lock().unwrap().push(format!("fuzz job {} of {} stopped ({}) but the saved input does not violate {} when replayed through the check", j, target, what, prop.id));
                    }
                }
                None => r.inconclusive.lock().unwrap().push(format!("fuzz job {} of {} failed without an artifact: {}", j, target, what)),
            }
        }
        let _ = std::fs::remove_dir_all(&work);
    }
    r.stats.evals.fetch_add(total_runs, std::sync::atomic::Ordering::Relaxed);
    r.stats.hist.lock().unwrap().insert(format!("libFuzzer executions ({}; ASan + debug assertions; oracle inside the target)", target), total_runs);
    r.stats.hist.lock().unwrap().insert(format!("libFuzzer edge coverage reached ({})", target), cov);
    r.phase_done(&format!("coverage-guided libFuzzer campaign on {}: {} jobs × {} runs (half from the committed seed corpus, half from an empty one), restricted to {}", target, jobs, runs, prop.id), total_runs, false, t0);
}

fn write_evidence(prop: &props::PropDef, r: &Runner, args: &Args, t0: Instant, nviol: usize) {
    use std::sync::atomic::Ordering;
    let path = format!("{}/evidence/{}.json", vlib::verif_dir(), prop.id);
    let _ = std::fs::create_dir_all(format!("{}/evidence", vlib::verif_dir()));
    let prev = if args.merge { std::fs::read_to_string(&path).ok() } else { None };
    let text = vlib::engine::evidence_json(
        prop.id,
        args.tier,
        args.seed,
        prop.rule,
        prop.assumptions,
        r,
        profile_name(),
        t0.elapsed().as_secs_f64(),
        nviol,
        prev.as_deref(),
    );
    let _ = r.stats.evals.load(Ordering::Relaxed);
    std::fs::write(&path, text).unwrap();
}
