//! vdigest: parse every case of a corpus file and print one 64-bit result hash per
//! (case, alignment). Dependency-free so that it can be built in every flag / feature
//! variant of httparse (C13). With `--cfg httparse_verif` it also accepts `--cell N`
//! (force the cached runtime-detection cell, hook H2) and `--race` (16 threads released
//! together into their first parse).
//!
//! corpus format: repeated [entry u8][cfg u8][cap u16 le][len u32 le][len bytes]
//! output: 8 bytes (le) per (case, alignment in {0, 1, 19}) on stdout

use httparse::{Header, ParserConfig, Request, Response, Status, EMPTY_HEADER};
use std::io::{Read, Write};
use std::mem::MaybeUninit;

fn make_config(bits: u8) -> ParserConfig {
    let mut c = ParserConfig::default();
    c.allow_spaces_after_header_name_in_responses(bits & 1 != 0);
    c.allow_obsolete_multiline_headers_in_responses(bits & 2 != 0);
    c.allow_multiple_spaces_in_request_line_delimiters(bits & 4 != 0);
    c.allow_multiple_spaces_in_response_status_delimiters(bits & 8 != 0);
    c.allow_space_before_first_header_name(bits & 16 != 0);
    c.ignore_invalid_headers_in_responses(bits & 32 != 0);
    c.ignore_invalid_headers_in_requests(bits & 64 != 0);
    c
}

struct H(u64);
impl H {
    fn b(&mut self, x: &[u8]) {
        for &c in x {
            self.0 ^= c as u64;
            self.0 = self.0.wrapping_mul(0x100000001b3);
        }
    }
    fn u(&mut self, x: u64) {
        self.b(&x.to_le_bytes());
    }
    fn slice(&mut self, buf: &[u8], s: &[u8]) {
        self.u(s.len() as u64);
        if !s.is_empty() {
            // offset into the buffer (usize::MAX if outside)
            let off = (s.as_ptr() as usize).wrapping_sub(buf.as_ptr() as usize);
            self.u(if off <= buf.len() { off as u64 } else { u64::MAX });
            self.b(s);
        }
    }
    fn status(&mut self, r: &Result<Status<usize>, httparse::Error>) {
        match r {
            Ok(Status::Complete(n)) => {
                self.u(1);
                self.u(*n as u64);
            }
            Ok(Status::Partial) => self.u(2),
            Err(e) => {
                self.u(3);
                self.b(format!("{:?}", e).as_bytes());
            }
        }
    }
    fn headers(&mut self, buf: &[u8], hs: &[Header<'_>]) {
        self.u(hs.len() as u64);
        for h in hs {
            self.slice(buf, h.name.as_bytes());
            self.slice(buf, h.value);
        }
    }
}

fn digest(entry: u8, cfg: u8, cap: usize, buf: &[u8]) -> u64 {
    let mut h = H(0xcbf29ce484222325);
    let config = make_config(cfg);
    let mut arr: Vec<Header<'_>> = vec![EMPTY_HEADER; cap];
    let mut uarr: Vec<MaybeUninit<Header<'_>>> = vec![MaybeUninit::uninit(); cap];
    let mut empty: [Header<'_>; 0] = [];
    match entry {
        0..=3 => {
            let uninit = entry >= 2;
            let mut req = if uninit { Request::new(&mut empty[..]) } else { Request::new(&mut arr[..]) };
            let r = match entry {
                0 => req.parse(buf),
                1 => config.parse_request(&mut req, buf),
                2 => req.parse_with_uninit_headers(buf, &mut uarr[..]),
                _ => config.parse_request_with_uninit_headers(&mut req, buf, &mut uarr[..]),
            };
            h.status(&r);
            h.u(req.method.is_some() as u64);
            h.slice(buf, req.method.unwrap_or("").as_bytes());
            h.u(req.path.is_some() as u64);
            h.slice(buf, req.path.unwrap_or("").as_bytes());
            h.u(req.version.map(|v| v as u64 + 1).unwrap_or(0));
            if matches!(r, Ok(Status::Complete(_))) {
                h.headers(buf, &*req.headers);
            }
        }
        4..=7 => {
            let uninit = entry >= 6;
            let mut resp = if uninit { Response::new(&mut empty[..]) } else { Response::new(&mut arr[..]) };
            let r = match entry {
                4 => resp.parse(buf),
                5 => config.parse_response(&mut resp, buf),
                6 => ParserConfig::default().parse_response_with_uninit_headers(&mut resp, buf, &mut uarr[..]),
                _ => config.parse_response_with_uninit_headers(&mut resp, buf, &mut uarr[..]),
            };
            h.status(&r);
            h.u(resp.version.map(|v| v as u64 + 1).unwrap_or(0));
            h.u(resp.code.map(|v| v as u64 + 1).unwrap_or(0));
            h.u(resp.reason.is_some() as u64);
            h.slice(buf, resp.reason.unwrap_or("").as_bytes());
            if matches!(r, Ok(Status::Complete(_))) {
                h.headers(buf, &*resp.headers);
            }
        }
        8 => match httparse::parse_headers(buf, &mut arr[..]) {
            Ok(Status::Complete((n, hs))) => {
                h.u(1);
                h.u(n as u64);
                h.headers(buf, hs);
            }
            Ok(Status::Partial) => h.u(2),
            Err(e) => {
                h.u(3);
                h.b(format!("{:?}", e).as_bytes());
            }
        },
        _ => match httparse::parse_chunk_size(buf) {
            Ok(Status::Complete((n, sz))) => {
                h.u(1);
                h.u(n as u64);
                h.u(sz);
            }
            Ok(Status::Partial) => h.u(2),
            Err(_) => h.u(3),
        },
    }
    h.0
}

#[cfg(httparse_verif)]
fn set_cell(v: u8) {
    httparse::_verif::simd::set_runtime_feature(v);
}
#[cfg(not(httparse_verif))]
fn set_cell(_v: u8) {
    eprintln!("vdigest: --cell needs a build with --cfg httparse_verif");
    std::process::exit(2);
}

const ALIGNS: [usize; 3] = [0, 1, 19];

fn main() {
    let args: Vec<String> = std::env::args().collect();
    let mut path = None;
    let mut race = false;
    let mut exact = false;
    let mut repeat = 1usize;
    let mut i = 1;
    while i < args.len() {
        match args[i].as_str() {
            "--cell" => {
                i += 1;
                set_cell(args[i].parse().unwrap());
            }
            "--race" => race = true,
            // every case in its own exact-size heap allocation (for valgrind memcheck / ASan)
            "--exact" => exact = true,
            "--repeat" => {
                i += 1;
                repeat = args[i].parse().unwrap();
            }
            p => path = Some(p.to_string()),
        }
        i += 1;
    }
    let mut data = Vec::new();
    std::fs::File::open(path.expect("corpus path")).unwrap().read_to_end(&mut data).unwrap();
    // index the cases
    let mut cases: Vec<(u8, u8, usize, std::ops::Range<usize>)> = vec![];
    let mut p = 0;
    while p + 8 <= data.len() {
        let entry = data[p];
        let cfg = data[p + 1];
        let cap = u16::from_le_bytes([data[p + 2], data[p + 3]]) as usize;
        let len = u32::from_le_bytes([data[p + 4], data[p + 5], data[p + 6], data[p + 7]]) as usize;
        cases.push((entry, cfg, cap, p + 8..p + 8 + len));
        p += 8 + len;
    }
    let out = std::io::stdout();
    let mut out = std::io::BufWriter::new(out.lock());
    if race {
        // 16 threads released together into their *first* parse; each prints the digest of
        // case (thread index mod n); order fixed by joining in order
        let barrier = std::sync::Arc::new(std::sync::Barrier::new(16));
        let data = std::sync::Arc::new(data);
        let cases = std::sync::Arc::new(cases);
        let hs: Vec<_> = (0..16)
            .map(|t| {
                let (b, d, c) = (barrier.clone(), data.clone(), cases.clone());
                std::thread::spawn(move || {
                    let (entry, cfg, cap, r) = c[t % c.len()].clone();
                    let buf = d[r].to_vec();
                    b.wait();
                    digest(entry, cfg, cap, &buf)
                })
            })
            .collect();
        for h in hs {
            out.write_all(&h.join().unwrap().to_le_bytes()).unwrap();
        }
        return;
    }
    if exact {
        for (entry, cfg, cap, r) in &cases {
            let src = &data[r.clone()];
            let mut own: Vec<u8> = Vec::with_capacity(src.len());
            own.extend_from_slice(src);
            let d = digest(*entry, *cfg, *cap, &own);
            out.write_all(&d.to_le_bytes()).unwrap();
        }
        return;
    }
    let mut scratch: Vec<u8> = vec![0; 64];
    for _ in 0..repeat {
        for (entry, cfg, cap, r) in &cases {
            let src = &data[r.clone()];
            if scratch.len() < src.len() + 8192 + 128 {
                scratch.resize(src.len() * 2 + 8192 + 128, 0);
            }
            for a in ALIGNS {
                // start at a 64-aligned address + a
                let base = scratch.as_ptr() as usize;
                let off = ((base + 63) & !63) - base + a;
                scratch[off..off + src.len()].copy_from_slice(src);
                let d = digest(*entry, *cfg, *cap, &scratch[off..off + src.len()]);
                if repeat == 1 {
                    out.write_all(&d.to_le_bytes()).unwrap();
                }
            }
            if repeat == 1 {
                // fourth placement: the buffer straddles a 4 KiB page boundary, which falls k
                // bytes after its start (k from the content, so a single-case replay places it
                // the same way)
                let base = scratch.as_ptr() as usize;
                let page = (base + 4096 + 4095) & !4095;
                let mut hk: u64 = 0xcbf29ce484222325;
                for &b in src.iter().take(64) {
                    hk = (hk ^ b as u64).wrapping_mul(0x100000001b3);
                }
                let k = (hk % (src.len().min(4095) as u64 + 1)) as usize;
                let off = page - k - base;
                scratch[off..off + src.len()].copy_from_slice(src);
                let d = digest(*entry, *cfg, *cap, &scratch[off..off + src.len()]);
                out.write_all(&d.to_le_bytes()).unwrap();
            }
        }
    }
}
