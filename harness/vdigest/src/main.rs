fn main(){}
